package keeper

// Engine conformance traps, stateful part (selftest only; never part of /repo): false postconditions about the store.

import (
	sdk "github.com/cosmos/cosmos-sdk/types"
	tmbytes "github.com/tendermint/tendermint/libs/bytes"

	"github.com/irismod/service/types"
)

// S1. a store write outside the declared frame
func (k Keeper) trapFrame(ctx sdk.Context, id tmbytes.HexBytes, rc types.RequestContext) {
	k.SetRequestContext(ctx, id, rc)
}

// S2. a callee writes the store; the caller's claim that nothing changed is false
func (k Keeper) trapCalleeWrites(ctx sdk.Context, id tmbytes.HexBytes) bool {
	k.DeleteRequestContext(ctx, id)
	_, found := k.GetRequestContext(ctx, id)
	return found
}

// S3. a parameter assigned in the body: the postcondition speaks about the entry value
func (k Keeper) trapParamAssigned(ctx sdk.Context, n int64) int64 {
	n = n + 1
	return n
}

// S4. a Go map is iterated in arbitrary order
func trapMapOrder(m map[string]int64) []int64 {
	var out []int64
	for _, v := range m {
		out = append(out, v)
	}
	return out
}

// S5. an iterator does not see records written after it was opened
func (k Keeper) trapIteratorSnapshot(ctx sdk.Context, id tmbytes.HexBytes, rc types.RequestContext) int {
	store := ctx.KVStore(k.storeKey)
	it := sdk.KVStorePrefixIterator(store, types.RequestContextKey)
	defer it.Close()
	k.SetRequestContext(ctx, id, rc)
	n := 0
	for ; it.Valid(); it.Next() {
		n++
	}
	return n
}

// S6. an early stop of a callback iteration: not every context is visited
func (k Keeper) trapEarlyStop(ctx sdk.Context) int {
	n := 0
	k.IterateRequestContexts(ctx, func(id tmbytes.HexBytes, rc types.RequestContext) bool {
		n++
		return true
	})
	return n
}
