package types

// Engine conformance traps (selftest only; never part of /repo). Every function below carries, in traps_contracts.txt,
// a postcondition that is FALSE for the real Go semantics. govc must report each of them (failed or out of reach);
// a trap that verifies is a soundness hole of the engine.

import (
	"bytes"

	sdk "github.com/cosmos/cosmos-sdk/types"
)

// 1. append into spare capacity overwrites the original backing array
func trapAppendAlias(a []int64) int64 {
	b := a[:1]
	c := append(b, 42)
	_ = c
	return a[1]
}

// 2. a retained pointer to a variable declared before the loop: all elements alias the last value
func trapPtrLoop(xs []Coinlike) []*Coinlike {
	var out []*Coinlike
	var cur Coinlike
	for i := 0; i < len(xs); i++ {
		cur = xs[i]
		out = append(out, &cur)
	}
	return out
}

type Coinlike struct {
	Denom  string
	Amount int64
}

// 3. go 1.14 semantics: the range variable is one variable for the whole loop
func trapRangeVarPtr(xs []Coinlike) []*Coinlike {
	var out []*Coinlike
	for _, x := range xs {
		out = append(out, &x)
	}
	return out
}

// 4. truncated division rounds toward zero
func trapDiv(a int64) int64 {
	return a / 2
}

// 5. unsigned subtraction wraps
func trapUSub(a, b uint64) uint64 {
	return a - b
}

// 6. int64 -> int16 conversion truncates
func trapConv(a int64) int16 {
	return int16(a)
}

// 7. a[:0] of a non-nil slice is not nil
func trapNilSlice(a []int64) bool {
	b := a[:0]
	return b == nil
}

// 8. two pointer parameters may alias
func trapPtrAlias(a, b *Coinlike) int64 {
	a.Amount = 1
	return b.Amount
}

// 9. writing through a slice parameter is visible to the caller's other views
func trapSliceWrite(a []int64) int64 {
	b := a
	b[0] = 7
	return a[0]
}

// 10. range over a slice evaluates the slice once: appending inside the loop does not extend the iteration
func trapRangeAppend(a []int64) int {
	n := 0
	for range a {
		a = append(a, 1)
		n++
	}
	return n
}

// 11. the value copy made by range is not the element
func trapRangeCopy(xs []Coinlike) int64 {
	for _, x := range xs {
		x.Amount = 5
	}
	if len(xs) == 0 {
		return 5
	}
	return xs[0].Amount
}

// 12. closures see later assignments of captured variables
func trapClosureCapture() int64 {
	v := int64(1)
	f := func() int64 { return v }
	v = 2
	return f()
}

// 13. sdk.Coins{} built by literal keeps zero coins, NewCoins drops them (length differs)
func trapCoinsLiteral(d string) int {
	c := sdk.Coins{sdk.Coin{Denom: d, Amount: sdk.ZeroInt()}}
	return len(c)
}

// 14. string indexing is by byte; len counts bytes
func trapStrLen() int {
	s := "é"
	return len(s)
}

// 15. integer overflow on addition wraps
func trapAddWrap(a int64) bool {
	return a+1 > a
}

// 16. a map read of a missing key gives the zero value, and the comma-ok form says so
func trapMapMissing(m map[string]int64) int64 {
	v, ok := m["absent"]
	if ok {
		return v
	}
	return -1
}

// 17. struct assignment copies; modifying the copy leaves the original
func trapStructCopy(c Coinlike) int64 {
	d := c
	d.Amount = 9
	return c.Amount
}

// 18. named result modified by a deferred closure
func trapDeferResult() (r int64) {
	defer func() { r = 2 }()
	return 1
}

// 19. shadowed variable: the outer one keeps its value
func trapShadow(flag bool) int64 {
	x := int64(1)
	if flag {
		x := int64(2)
		_ = x
	}
	return x
}

// 20. slicing shares memory: a write through the sub-slice is seen through the original
func trapSubsliceWrite(a []int64) int64 {
	b := a[1:]
	b[0] = 3
	return a[1]
}

// 21. a write through a sub-slice of a byte slice parameter is seen through the original
func trapBytesSubWrite(a []byte) byte {
	b := a[1:3]
	b[0] = 9
	return a[1]
}

// 22. a pointer to an element of a slice parameter writes the caller's memory
func trapElemPtr(xs []Coinlike) int64 {
	for i := range xs {
		p := &xs[i]
		p.Amount = 1
	}
	if len(xs) == 0 {
		return 0
	}
	return xs[0].Amount
}

// 23. uint32 multiplication wraps
func trapMul32(a uint32) bool {
	return a*2 >= a
}

// 24. converting a negative int64 to uint64 wraps
func trapNegToU(a int64) bool {
	return uint64(a) < 9223372036854775808
}

// 25. string concatenation is not commutative
func trapConcat(a, b string) bool {
	return a+b == b+a
}

// 26. bytes.Equal treats nil and empty alike
func trapBytesEqualNil() bool {
	var a []byte
	b := []byte{}
	return bytes.Equal(a, b)
}

// 27. a loop without an invariant is never silently proved
func trapLoopNoInv(n int) int {
	s := 0
	for i := 0; i < n; i++ {
		s += 2
	}
	return s
}

// 28. recursion is not unfolded
func trapRec(n int64) int64 {
	if n <= 0 {
		return 0
	}
	return 1 + trapRec(n-1)
}

// 29. a goroutine makes the function out of reach
func trapGo() int64 {
	c := make(chan int64, 1)
	go func() { c <- 1 }()
	return <-c
}

// 30. AccAddress.Equals: nil and empty addresses are equal
func trapAddrEqualsNil() bool {
	var a sdk.AccAddress
	b := sdk.AccAddress{}
	return a.Equals(b)
}

// 31. sdk.Coins.IsEqual panics on different lengths? no: returns false; but on equal lengths with different denoms it panics
func trapIndexEmpty(a []int64) int64 {
	return a[len(a)-1]
}

// 32. Slice with negative-length make panics
func trapMakeNeg(n int) int {
	b := make([]byte, n)
	return len(b)
}
