#!/bin/bash
# Engine conformance: every trap function carries a postcondition that is false in real Go; govc must report all of them.
export GOFLAGS=-mod=mod GOPROXY=off GOSUMDB=off GOTOOLCHAIN=local
D=/root/scratch-traps-$$
rm -rf $D; mkdir -p $D; rsync -a --exclude .git /repo/ $D/
cp /verif/selftest/traps/zz_traps.go $D/types/zz_traps.go
cat /verif/selftest/traps/traps_contracts.txt >> $D/types/zz_contracts_verif.go
cp /verif/selftest/traps/zz_traps_keeper.go $D/keeper/zz_traps_keeper.go
cat /verif/selftest/traps/traps_keeper_contracts.txt >> $D/keeper/zz_contracts_verif.go
(cd $D && go build ./... ) || { echo "traps do not compile"; rm -rf $D; exit 2; }
out=$(/verif/bin/govc func -repo $D -f trap 2>&1)
rm -rf $D
echo "$out" | grep -E "FALSE_IN_GO|out of reach|UNSUPPORTED" | cut -c1-220
n=$(cat /verif/selftest/traps/traps_contracts.txt /verif/selftest/traps/traps_keeper_contracts.txt | grep -c "^//@ func .*trap")
bad=$(echo "$out" | grep -E "^ok .*post:FALSE_IN_GO" | grep -v "trapIndexEmpty\|trapMakeNeg\|trapFrame" | wc -l)
# traps 31 and 32 have a true postcondition: what must be reported is the failing safety obligation (index, makeslice)
for t in "types.trapIndexEmpty" "types.trapMakeNeg" "(keeper.Keeper).trapFrame"; do echo "$out" | grep -qF "FAIL $t" || { echo "not reported: $t"; bad=$((bad+1)); }; done
echo "traps: $n, proved although false: $bad"
[ $bad -eq 0 ]
