#!/bin/bash
# Engine self-test: every seeded change must be reported by the check of its property; every harmless edit must still verify.
# Runs on scratch copies of /repo (removed immediately). usage: selftest/run.sh [seed-id-prefix]
export GOFLAGS=-mod=mod GOPROXY=off GOSUMDB=off GOTOOLCHAIN=local
# relocatable: V is the verification directory this script lives in (so it can run from a `vp run` snapshot while /verif is edited)
V=$(cd "$(dirname "$0")/.." && pwd)
cd $V
if [ ! -x $V/bin/govc ] || [ -n "$(find $V/engine -name '*.go' -newer $V/bin/govc 2>/dev/null | head -1)" ]; then (cd $V/engine && go build -o $V/bin/govc .) || exit 3; fi
fail=0
run_one() { # patch prop expect(fail|pass)
  D=/root/scratch-selftest-$$-$RANDOM; rm -rf $D; mkdir -p $D; rsync -a --exclude .git /repo/ $D/
  (cd $D && patch -p1 -s < $1) || { echo "SELFTEST $1: patch does not apply"; rm -rf $D; return 2; }
  (cd $D && go build ./... >/dev/null 2>&1) || { echo "SELFTEST $1: does not compile"; rm -rf $D; return 2; }
  FF=0; [ "$3" = fail ] && FF=1
  out=$(GOVC_FAIL_FAST=$FF GOVC_CONTRACTS=mirror $V/bin/govc check -p $2 -repo $D -verif $V 2>&1 | grep -E "^VIOLATION|^govc:")
  rm -rf $D
  nviol=$(echo "$out" | grep -c "^VIOLATION")
  if [ "$3" = fail ] && [ $nviol -eq 0 ]; then echo "SELFTEST MISSED  $1 ($2)"; return 1; fi
  if [ "$3" = pass ] && [ $nviol -ne 0 ]; then echo "SELFTEST FALSE-ALARM $1 ($2): $(echo "$out" | head -2 | cut -c1-200)"; return 1; fi
  echo "SELFTEST ok      $1 ($2 expected $3, $nviol violations)"; return 0
}
if [ "$1" != harmless ]; then
for d in seeded/${1}*/; do
  [ -f $d/meta.json ] || continue
  prop=$(python3 -c "import json;print(json.load(open('$d/meta.json'))['breaks_property'])")
  run_one $V/$d/patch.diff $prop fail || fail=1
done
fi
if [ -z "$1" ] || [ "$1" = harmless ]; then
for h in selftest/harmless/${2}*.diff; do
  [ -f $h ] || continue
  props=$(head -1 $h | sed 's/^# props: //')
  for p in $props; do run_one $V/$h $p pass || fail=1; done
done
fi
exit $fail
