#!/bin/bash
# Engine self-test: every seeded change must be reported by the check of its property; every harmless edit must still verify.
# Runs on scratch copies of /repo (removed immediately). usage: selftest/run.sh [seed-id-prefix]
export GOFLAGS=-mod=mod GOPROXY=off GOSUMDB=off GOTOOLCHAIN=local
cd /verif
fail=0
run_one() { # patch prop expect(fail|pass)
  D=/root/scratch-selftest-$$; rm -rf $D; mkdir -p $D; rsync -a --exclude .git /repo/ $D/
  (cd $D && patch -p1 -s < $1) || { echo "SELFTEST $1: patch does not apply"; rm -rf $D; return 2; }
  (cd $D && go build ./... >/dev/null 2>&1) || { echo "SELFTEST $1: does not compile"; rm -rf $D; return 2; }
  out=$(/verif/bin/govc check -p $2 -repo $D 2>&1 | grep -E "^VIOLATION|^govc:")
  rm -rf $D
  nviol=$(echo "$out" | grep -c "^VIOLATION")
  if [ "$3" = fail ] && [ $nviol -eq 0 ]; then echo "SELFTEST MISSED  $1 ($2)"; return 1; fi
  if [ "$3" = pass ] && [ $nviol -ne 0 ]; then echo "SELFTEST FALSE-ALARM $1 ($2): $(echo "$out" | head -2 | cut -c1-200)"; return 1; fi
  echo "SELFTEST ok      $1 ($2 expected $3, $nviol violations)"; return 0
}
for d in seeded/${1}*/; do
  [ -f $d/meta.json ] || continue
  prop=$(python3 -c "import json;print(json.load(open('$d/meta.json'))['breaks_property'])")
  run_one /verif/$d/patch.diff $prop fail || fail=1
done
if [ -z "$1" ]; then
for h in selftest/harmless/*.diff; do
  [ -f $h ] || continue
  props=$(head -1 $h | sed 's/^# props: //')
  for p in $props; do run_one /verif/$h $p pass || fail=1; done
done
fi
exit $fail
