#!/bin/bash
# copies the contract mirror into /repo as comment-only, build-tag-guarded files and commits them there (hook commit)
set -e
# refresh the recorded variable tables (//@ vars ...) from the current source: contracts are (re)written against this tree
GOVC_CONTRACTS=mirror /verif/bin/govc annotate
cp /verif/contracts/root_contracts_verif.go /repo/zz_contracts_verif.go 2>/dev/null || true
cp /verif/contracts/keeper_contracts_verif.go /repo/keeper/zz_contracts_verif.go
cp /verif/contracts/types_contracts_verif.go /repo/types/zz_contracts_verif.go
cd /repo
git add zz_contracts_verif.go keeper/zz_contracts_verif.go types/zz_contracts_verif.go 2>/dev/null || git add keeper/zz_contracts_verif.go types/zz_contracts_verif.go
if ! git diff --cached --quiet; then git commit -qm "verif hook: contracts as comment-only files behind build tag verif (${1:-update})"; git log --oneline | head -1; else echo "contracts unchanged"; fi
