; ---- derived facts: inductive consequences of the unfolding axioms of 21_state. Each is proved by the lemma pair
; <name>_base / <name>_step in 60_lemmas.spec (base case and induction step, without this file loaded).
(assert (forall ((r (Array Key Bytes)) (p Bytes) (c (Slice Coin)) (n Int) (k Key)) (! (=> (and (>= n 0) (not (and (is-KEarned k) (= (kea_prov k) p))))
   (= (select (wrEarned r p c n) k) (select r k))) :pattern ((select (wrEarned r p c n) k)))))
(assert (forall ((r (Array Key Bytes)) (o Bytes) (c (Slice Coin)) (n Int) (k Key)) (! (=> (and (>= n 0) (not (= k (KOwnerEarned o))))
   (= (select (wrOwnerEarned r o c n) k) (select r k))) :pattern ((select (wrOwnerEarned r o c n) k)))))
(assert (forall ((r (Array Key Bytes)) (s (Array Key Bytes)) (p Prefix) (n Int) (k Key)) (! (=> (and (>= n 0) (not (is-KEarned k)))
   (= (select (clrProv r s p n) k) (select r k))) :pattern ((select (clrProv r s p n) k)))))
(assert (forall ((r (Array Key Bytes)) (p Bytes) (c (Slice Coin)) (n Int) (d Str)) (! (=> (>= n 0) (= (sumDep (wrEarned r p c n) d) (sumDep r d))) :pattern ((sumDep (wrEarned r p c n) d)))))
(assert (forall ((r (Array Key Bytes)) (o Bytes) (c (Slice Coin)) (n Int) (d Str)) (! (=> (>= n 0) (= (sumDep (wrOwnerEarned r o c n) d) (sumDep r d))) :pattern ((sumDep (wrOwnerEarned r o c n) d)))))
; issuing requests writes only request records and pending markers
(assert (forall ((r (Array Key Bytes)) (t Int) (h Int) (id Bytes) (c RequestContext) (cnt Int) (ps (Slice Bytes)) (n Int) (k Key))
  (! (=> (and (>= n 0) (not (is-KReq k)) (not (is-KActB k)) (not (is-KActID k))) (= (select (issueIt r t h id c cnt ps n) k) (select r k)))
     :pattern ((select (issueIt r t h id c cnt ps n) k)))))
; prices are not affected by issuing requests (lemma issue_price_frame)
(assert (forall ((r (Array Key Bytes)) (t Int) (h Int) (id Bytes) (c RequestContext) (cnt Int) (ps (Slice Bytes)) (n Int) (t2 Int) (cons Bytes) (s Str) (p Bytes))
  (! (=> (>= n 0) (= (priceCoins (issueIt r t h id c cnt ps n) t2 cons s p) (priceCoins r t2 cons s p)))
     :pattern ((priceCoins (issueIt r t h id c cnt ps n) t2 cons s p)))))
