; ASSUME A1: a message whose handler returns an error is reverted by the SDK (cache-wrapped store), so invariants need only be re-established on success
; ASSUME A10: the module store is a finite map from the byte strings kbytes(k) to values; keyOf(kbytes(k)) = k and prefix scans are exact (proved at byte level in layer K for every family except earned fees, D9), for keys built from names without 0x00, 20-byte owners and non-negative heights
; ASSUME A0: the invariants (WF, depInv, escInv, actInv, recInv, idxInv, schedInv, futInv, cntInv, cadInv) hold in the state after InitGenesis; every entry point re-establishes them
; ASSUME A14: batch counters stay below 2^63 (each batch occupies at least one block and heights stay below 2^62 by A13)
; ---- state theory: abstraction axioms (justified by layer K, property C18) and typed views of the store.
(assert (forall ((k Key)) (! (= (keyOf (kbytes k)) k) :pattern ((kbytes k)))))
(assert (forall ((p Prefix)) (! (= (pfxOf (pbytes p)) p) :pattern ((pbytes p)))))
(assert (forall ((k Key)) (! (not (= (kbytes k) bnil)) :pattern ((kbytes k)))))
; request ids decode back to what they were built from (lemma rid_projections of layer K)
(assert (forall ((c Bytes) (b Int) (h Int) (i Int)) (! (and (= (ridCtx (mkRID c b h i)) c) (= (ridBatch (mkRID c b h i)) b) (= (ridHeight (mkRID c b h i)) h) (= (ridIndex (mkRID c b h i)) i)) :pattern ((mkRID c b h i)))))
; exact prefix scans (justified by the prefix-exactness lemmas of layer K)
(define-fun inPfx ((k Key) (p Prefix)) Bool
  (ite (is-PAllDef p) (is-KDef k)
  (ite (is-PAllBind p) (is-KBind k)
  (ite (is-PBindSvc p) (and (is-KBind k) (= (kbind_svc k) (pbs_svc p)))
  (ite (is-POwnerBind p) (and (is-KOwnerBind k) (= (kob_owner k) (pob_owner p)) (= (kob_svc k) (pob_svc p)))
  (ite (is-POwnerProv p) (and (is-KOwnerProv k) (= (kop_owner k) (pop_owner p)))
  (ite (is-PAllWAddr p) (is-KWAddr k)
  (ite (is-PAllCtx p) (is-KCtx k)
  (ite (is-PExpQ p) (and (is-KExpQ k) (= (keq_h k) (peq_h p)))
  (ite (is-PNewQ p) (and (is-KNewQ k) (= (knq_h k) (pnq_h p)))
  (ite (is-PAllReq p) (is-KReq k)
  (ite (is-PReqByCtx p) (and (is-KReq k) (= (ridCtx (kreq_rid k)) (prc_id p)) (= (ridBatch (kreq_rid k)) (prc_b p)))
  (ite (is-PAllAct p) (is-KActB k)
  (ite (is-PActBind p) (and (is-KActB k) (= (kab_svc k) (pab_svc p)) (= (kab_prov k) (pab_prov p)))
  (ite (is-PActByCtx p) (and (is-KActID k) (= (ridCtx (kai_rid k)) (pac_id p)) (= (ridBatch (kai_rid k)) (pac_b p)))
  (ite (is-PAllResp p) (is-KResp k)
  (ite (is-PRespByCtx p) (and (is-KResp k) (= (ridCtx (kresp_rid k)) (prr_id p)) (= (ridBatch (kresp_rid k)) (prr_b p)))
  (ite (is-PEarned p) (and (is-KEarned k) (= (kea_prov k) (pea_prov p)))
  (ite (is-PAllEarned p) (is-KEarned k)
  (ite (is-POwnerEarned p) (and (is-KOwnerEarned k) (= (koe_owner k) (poe_owner p)))
  false))))))))))))))))))))

; enum values of RequestContextState / RequestContextBatchState (generated constants of types/service.pb.go)
(define-fun RUNNING () Int 0)
(define-fun PAUSED () Int 1)
(define-fun COMPLETED () Int 2)
(define-fun BATCHRUNNING () Int 0)
(define-fun BATCHCOMPLETED () Int 1)
; prefix iterators over a snapshot
(declare-fun itCount ((Array Key Bytes) Prefix) Int)
(declare-fun itKey ((Array Key Bytes) Prefix Int) Key)
(declare-fun itIdx ((Array Key Bytes) Prefix Key) Int)
(assert (forall ((s (Array Key Bytes)) (p Prefix)) (! (<= 0 (itCount s p)) :pattern ((itCount s p)))))
(assert (forall ((s (Array Key Bytes)) (p Prefix) (i Int)) (! (=> (and (<= 0 i) (< i (itCount s p)))
    (and (inPfx (itKey s p i) p) (not (= (select s (itKey s p i)) bnil)) (= (itIdx s p (itKey s p i)) i)))
  :pattern ((itKey s p i)))))
(assert (forall ((s (Array Key Bytes)) (p Prefix) (k Key)) (! (=> (and (inPfx k p) (not (= (select s k) bnil)))
    (and (<= 0 (itIdx s p k)) (< (itIdx s p k) (itCount s p)) (= (itKey s p (itIdx s p k)) k)))
  :pattern ((itIdx s p k)))))

; views
(define-fun bindFound ((r (Array Key Bytes)) (s Str) (p Bytes)) Bool (not (= (select r (KBind s p)) bnil)))
(define-fun bindOf ((r (Array Key Bytes)) (s Str) (p Bytes)) ServiceBinding (dec_ServiceBinding (select r (KBind s p))))
(define-fun defFound ((r (Array Key Bytes)) (s Str)) Bool (not (= (select r (KDef s)) bnil)))
(define-fun ctxFound ((r (Array Key Bytes)) (id Bytes)) Bool (not (= (select r (KCtx id)) bnil)))
(define-fun ctxOf ((r (Array Key Bytes)) (id Bytes)) RequestContext (dec_RequestContext (select r (KCtx id))))
(define-fun ctxOrZero ((r (Array Key Bytes)) (id Bytes)) RequestContext (ite (ctxFound r id) (ctxOf r id) zero_RequestContext))
(define-fun pricingOf ((r (Array Key Bytes)) (s Str) (p Bytes)) Pricing (ite (= (select r (KPricing s p)) bnil) zero_Pricing (dec_Pricing (select r (KPricing s p)))))
(define-fun ownerFound ((r (Array Key Bytes)) (p Bytes)) Bool (not (= (select r (KOwner p)) bnil)))
(define-fun ownerOf ((r (Array Key Bytes)) (p Bytes)) Bytes (ite (ownerFound r p) (BytesValue_Value (dec_BytesValue (select r (KOwner p)))) bnil))
(define-fun volOf ((r (Array Key Bytes)) (c Bytes) (s Str) (p Bytes)) Int (ite (= (select r (KVol c s p)) bnil) 0 (UInt64Value_Value (dec_UInt64Value (select r (KVol c s p))))))
(define-fun reqFound ((r (Array Key Bytes)) (rid Bytes)) Bool (not (= (select r (KReq rid)) bnil)))
(define-fun reqOf ((r (Array Key Bytes)) (rid Bytes)) CompactRequest (dec_CompactRequest (select r (KReq rid))))
(define-fun isActive ((r (Array Key Bytes)) (rid Bytes)) Bool (not (= (select r (KActID rid)) bnil)))
(define-fun withdrawAddrOf ((r (Array Key Bytes)) (o Bytes)) Bytes (ite (= (select r (KWAddr o)) bnil) o (select r (KWAddr o))))

; minimum deposit of property C14: max(MinDeposit, base price x multiple) with sdk.Coins' IsAllLT
(define-fun minDepositOf ((pr Pricing)) (Slice Coin)
  (let ((m (newCoins (oneCoin baseDenom (* (amt (Pricing_Price pr) baseDenom) (Params_MinDepositMultiple params))))))
    (ite (isAllLT m (Params_MinDeposit params)) (Params_MinDeposit params) m)))

; block header
(declare-fun ctxHeader (Ctx) Header)
(declare-fun fld_Header_Time (Header) Int)
(assert (forall ((c Ctx)) (! (= (fld_Header_Time (ctxHeader c)) (ctxTime c)) :pattern ((ctxHeader c)))))

; string renderings
(declare-fun hexstr (Bytes) Str)
; HexBytes.String writes upper-case hex, which encoding/hex decodes back to the same bytes
(assert (forall ((b Bytes)) (! (and (= (hexErr (hexstr b)) NoErr) (= (hexDecode (hexstr b)) b)) :pattern ((hexstr b)))))

; representation invariant WF: stored records agree with the key they are stored under; binding owners are
; ordinary accounts (they signed the bind message: A3)
(define-fun onePriceCoin ((pr Pricing)) Bool (and (= (slen (Pricing_Price pr)) 1) (>= (Coin_Amount (select (sarr (Pricing_Price pr)) 0)) 0)))
(define-fun ordinary ((a Bytes)) Bool (and (not (= a (modAddr strlit_depositAcc))) (not (= a (modAddr strlit_requestAcc))) (not (= a (modAddr strlit_feeCollector)))))
(define-fun wfBindAt ((r (Array Key Bytes)) (s Str) (p Bytes)) Bool
  (=> (bindFound r s p) (and (> (blen p) 0) (= (ServiceBinding_ServiceName (bindOf r s p)) s) (= (ServiceBinding_Provider (bindOf r s p)) p)
        (rng_ServiceBinding (bindOf r s p)) (ordinary (ServiceBinding_Owner (bindOf r s p)))
        (forall ((d Str)) (! (>= (amt (ServiceBinding_Deposit (bindOf r s p)) d) 0) :pattern ((amt (ServiceBinding_Deposit (bindOf r s p)) d))))
        ; the recorded deposit is a valid coin list (what the module's own validation of a binding demands, C15)
        (coinsValid (ServiceBinding_Deposit (bindOf r s p)))
        (> (ServiceBinding_QoS (bindOf r s p)) 0)
        ; the stored price terms are the parsed form of the published pricing text (C15)
        (not (= (select r (KPricing s p)) bnil))
        (= (dec_Pricing (select r (KPricing s p))) (parsePricing (ServiceBinding_Pricing (bindOf r s p))))
        ; the stored price is exactly one coin of non-negative amount (what ParsePricing produces)
        (onePriceCoin (dec_Pricing (select r (KPricing s p))))
        ; the ownership indexes agree with the record (C15): the binding is listed under its owner, the provider is listed
        ; under that owner, and the provider's owner record names it
        (not (= (select r (KOwnerBind (ServiceBinding_Owner (bindOf r s p)) s p)) bnil))
        (not (= (select r (KOwnerProv (ServiceBinding_Owner (bindOf r s p)) p)) bnil))
        (ownerFound r p) (= (ownerOf r p) (ServiceBinding_Owner (bindOf r s p))))))
; a provider's owner record names a non-empty owner under which the provider is listed (C15)
(define-fun ownIdxAt ((r (Array Key Bytes)) (p Bytes)) Bool
  (=> (ownerFound r p) (and (> (blen (ownerOf r p)) 0) (not (= (select r (KOwnerProv (ownerOf r p) p)) bnil)))))
; conversely, every entry of the two ownership indexes names an existing binding of that owner / the provider's owner
(define-fun ownBindAt ((r (Array Key Bytes)) (o Bytes) (s Str) (p Bytes)) Bool
  (=> (not (= (select r (KOwnerBind o s p)) bnil)) (and (bindFound r s p) (= (ServiceBinding_Owner (bindOf r s p)) o))))
(define-fun ownProvAt ((r (Array Key Bytes)) (o Bytes) (p Bytes)) Bool
  (=> (not (= (select r (KOwnerProv o p)) bnil)) (and (ownerFound r p) (= (ownerOf r p) o))))
(define-fun WF ((r (Array Key Bytes))) Bool
  (and (forall ((s Str) (p Bytes)) (! (wfBindAt r s p) :pattern ((select r (KBind s p)))))
       (forall ((p Bytes)) (! (ownIdxAt r p) :pattern ((select r (KOwner p)))))
       (forall ((o Bytes) (s Str) (p Bytes)) (! (ownBindAt r o s p) :pattern ((select r (KOwnerBind o s p)))))
       (forall ((o Bytes) (p Bytes)) (! (ownProvAt r o p) :pattern ((select r (KOwnerProv o p)))))))

; ---- step relations of C15: definitions, bindings (with their owner) and provider ownership are for life
(define-fun defsKept ((o (Array Key Bytes)) (n (Array Key Bytes))) Bool
  (forall ((name Str)) (! (or (= (select n (KDef name)) (select o (KDef name)))
        ; ... or it is new, and stored under its own name
        (and (= (select o (KDef name)) bnil) (not (= (select n (KDef name)) bnil)) (= (ServiceDefinition_Name (dec_ServiceDefinition (select n (KDef name)))) name)))
     :pattern ((select n (KDef name))) :pattern ((select o (KDef name))))))
(define-fun bindsKept ((o (Array Key Bytes)) (n (Array Key Bytes))) Bool
  (forall ((s Str) (p Bytes)) (! (=> (bindFound o s p) (and (bindFound n s p) (= (ServiceBinding_Owner (bindOf n s p)) (ServiceBinding_Owner (bindOf o s p)))
      (= (ServiceBinding_ServiceName (bindOf n s p)) (ServiceBinding_ServiceName (bindOf o s p))) (= (ServiceBinding_Provider (bindOf n s p)) (ServiceBinding_Provider (bindOf o s p)))))
      :pattern ((select n (KBind s p))) :pattern ((select o (KBind s p))))))
(define-fun ownersKept ((o (Array Key Bytes)) (n (Array Key Bytes))) Bool
  (forall ((p Bytes)) (! (=> (> (blen (ownerOf o p)) 0) (= (ownerOf n p) (ownerOf o p))) :pattern ((select n (KOwner p))) :pattern ((select o (KOwner p))))))
(define-fun forLife ((o (Array Key Bytes)) (n (Array Key Bytes))) Bool (and (defsKept o n) (bindsKept o n) (ownersKept o n)))

; ---- aggregates: uninterpreted with their point-update law
(define-fun emptyVal () Bytes (bbuf (bzeros 0) 0 0))
(define-fun depositAcc () Bytes (modAddr strlit_depositAcc))
(define-fun requestAcc () Bytes (modAddr strlit_requestAcc))
; deposit recorded under a key (0 unless the key is a binding key holding a binding)
(define-fun depAt ((k Key) (v Bytes) (d Str)) Int (ite (and (is-KBind k) (not (= v bnil))) (amt (ServiceBinding_Deposit (dec_ServiceBinding v)) d) 0))
; the sum depends only on the binding records: sumDep(r) = sumDepV(bindView(r)), bindView(r) = r restricted to binding keys
(declare-fun bindView ((Array Key Bytes)) (Array Key Bytes))
(assert (forall ((r (Array Key Bytes)) (k Key)) (! (= (select (bindView r) k) (ite (is-KBind k) (select r k) bnil)) :pattern ((select (bindView r) k)))))
(declare-fun sumDepV ((Array Key Bytes) Str) Int)
(define-fun sumDep ((r (Array Key Bytes)) (d Str)) Int (sumDepV (bindView r) d))
(assert (forall ((r (Array Key Bytes)) (k Key) (v Bytes) (d Str)) (! (= (sumDep (store r k v) d) (+ (- (sumDep r d) (depAt k (select r k) d)) (depAt k v d))) :pattern ((sumDepV (bindView (store r k v)) d)))))
; two stores with different sums have different binding views (creates the equality atom so that array extensionality applies)
(assert (forall ((r1 (Array Key Bytes)) (r2 (Array Key Bytes)) (d Str)) (! (=> (= (bindView r1) (bindView r2)) (= (sumDepV (bindView r1) d) (sumDepV (bindView r2) d))) :pattern ((sumDepV (bindView r1) d) (sumDepV (bindView r2) d)))))
; a sum of non-negative deposits is at least each deposit (witness: a binding key with a negative deposit otherwise)
(declare-fun depGeWit ((Array Key Bytes) Key Str) Key)
(assert (forall ((r (Array Key Bytes)) (k Key) (d Str) (b (Array Bytes (Array Str Int))) (a Bytes) (c (Slice Coin))) (! (=> (< (sumDep r d) (depAt k (select r k) d)) (< (depAt (depGeWit r k d) (select r (depGeWit r k d)) d) 0))
   :pattern ((sumDepV (bindView r) d) (select r k) (canPay b a c)))))
; I_dep (property C03): the deposit account holds exactly the recorded deposits
(define-fun depInv ((r (Array Key Bytes)) (b (Array Bytes (Array Str Int)))) Bool
  (forall ((d Str)) (! (= (select (select b depositAcc) d) (sumDep r d)) :pattern ((select (select b depositAcc) d)) :pattern ((sumDep r d)))))

; the package-level prefixes used directly as scan prefixes
(assert (= g_types_ServiceDefinitionKey (pbytes PAllDef)))
(assert (= g_types_ServiceBindingKey (pbytes PAllBind)))
(assert (= g_types_WithdrawAddrKey (pbytes PAllWAddr)))
(assert (= g_types_RequestContextKey (pbytes PAllCtx)))
(assert (= g_types_RequestKey (pbytes PAllReq)))
(assert (= g_types_ActiveRequestKey (pbytes PAllAct)))
(assert (= g_types_ResponseKey (pbytes PAllResp)))
(assert (= g_types_EarnedFeesKey (pbytes PAllEarned)))

; scheduling views
(define-fun hasExp ((r (Array Key Bytes)) (id Bytes)) Bool (not (= (select r (KExpH id)) bnil)))
(define-fun hasNew ((r (Array Key Bytes)) (id Bytes)) Bool (not (= (select r (KNewH id)) bnil)))
(define-fun idVal ((id Bytes)) Bytes (enc_BytesValue (mkBytesValue id)))
(define-fun hVal ((h Int)) Bytes (enc_Int64Value (mkInt64Value h)))
; identity fields of a context never change (C09)
(define-fun sameIdentity ((a RequestContext) (b RequestContext)) Bool
  (and (= (RequestContext_ServiceName a) (RequestContext_ServiceName b)) (= (RequestContext_Consumer a) (RequestContext_Consumer b))
       (= (RequestContext_Input a) (RequestContext_Input b)) (= (RequestContext_SuperMode a) (RequestContext_SuperMode b))
       (= (RequestContext_Repeated a) (RequestContext_Repeated b)) (= (RequestContext_ModuleName a) (RequestContext_ModuleName b))))

; ---- prefix scans: clearing a prefix, and sums of the coins stored under a prefix (in iterator order)
(declare-fun clearPfx ((Array Key Bytes) Prefix) (Array Key Bytes))
(assert (forall ((r (Array Key Bytes)) (p Prefix) (k Key)) (! (= (select (clearPfx r p) k) (ite (inPfx k p) bnil (select r k))) :pattern ((select (clearPfx r p) k)))))
(define-fun coinAmt ((c Coin) (d Str)) Int (ite (= (Coin_Denom c) d) (Coin_Amount c) 0))
(declare-fun sumIt ((Array Key Bytes) Prefix Int Str) Int)
(assert (forall ((s (Array Key Bytes)) (p Prefix) (d Str)) (! (= (sumIt s p 0 d) 0) :pattern ((sumIt s p 0 d)))))
(assert (forall ((s (Array Key Bytes)) (p Prefix) (n Int) (d Str)) (! (=> (> n 0) (= (sumIt s p n d) (+ (sumIt s p (- n 1) d) (coinAmt (dec_Coin (select s (itKey s p (- n 1)))) d)))) :pattern ((sumIt s p n d)))))
(define-fun pfxSum ((r (Array Key Bytes)) (p Prefix) (d Str)) Int (sumIt r p (itCount r p) d))

; the amount a provider has earned in one denomination: the record under KEarned(provider, denom), 0 if there is none
(define-fun earnedAt ((r (Array Key Bytes)) (p Bytes) (d Str)) Int (ite (= (select r (KEarned p d)) bnil) 0 (Coin_Amount (dec_Coin (select r (KEarned p d))))))
; writing a coin list record by record (SetEarnedFees / SetOwnerEarnedFees)
(declare-fun wrEarned ((Array Key Bytes) Bytes (Slice Coin) Int) (Array Key Bytes))
(assert (forall ((r (Array Key Bytes)) (p Bytes) (c (Slice Coin))) (! (= (wrEarned r p c 0) r) :pattern ((wrEarned r p c 0)))))
(assert (forall ((r (Array Key Bytes)) (p Bytes) (c (Slice Coin)) (n Int)) (! (=> (> n 0) (= (wrEarned r p c n)
   (store (wrEarned r p c (- n 1)) (KEarned p (Coin_Denom (select (sarr c) (- n 1)))) (enc_Coin (select (sarr c) (- n 1)))))) :pattern ((wrEarned r p c n)))))
(declare-fun wrOwnerEarned ((Array Key Bytes) Bytes (Slice Coin) Int) (Array Key Bytes))
(assert (forall ((r (Array Key Bytes)) (o Bytes) (c (Slice Coin))) (! (= (wrOwnerEarned r o c 0) r) :pattern ((wrOwnerEarned r o c 0)))))
(assert (forall ((r (Array Key Bytes)) (o Bytes) (c (Slice Coin)) (n Int)) (! (=> (> n 0) (= (wrOwnerEarned r o c n)
   (store (wrOwnerEarned r o c (- n 1)) (KOwnerEarned o) (enc_Coin (select (sarr c) (- n 1)))))) :pattern ((wrOwnerEarned r o c n)))))
(define-fun feeCollectorAcc () Bytes (modAddr strlit_feeCollector))
; tax on one amount: floor(amount x rate)
(define-fun taxOf ((a Int)) Int (decTrunc (decMul (decFromInt a) (Params_ServiceFeeTax params))))
(assert (forall ((k Keeper)) (! (= (fld_Keeper_feeCollectorName k) strlit_feeCollector) :pattern ((fld_Keeper_feeCollectorName k)))))
; tax on a coin list, per denomination
(declare-fun taxSum ((Slice Coin) Int Str) Int)
(assert (forall ((c (Slice Coin)) (d Str)) (! (= (taxSum c 0 d) 0) :pattern ((taxSum c 0 d)))))
(assert (forall ((c (Slice Coin)) (n Int) (d Str)) (! (=> (> n 0) (= (taxSum c n d) (+ (taxSum c (- n 1) d) (ite (= (Coin_Denom (select (sarr c) (- n 1))) d) (taxOf (Coin_Amount (select (sarr c) (- n 1)))) 0)))) :pattern ((taxSum c n d)))))

; key-slice identities used when the module parses keys it iterates over (justified by the layout lemmas of layer K)
(assert (forall ((o Bytes) (p Bytes)) (! (= (blen (kbytes (KOwnerProv o p))) (+ 1 (blen o) (blen p))) :pattern ((kbytes (KOwnerProv o p))))))
(assert (forall ((o Bytes) (p Bytes)) (! (=> (= (blen o) 20) (= (bslice (kbytes (KOwnerProv o p)) 21 (blen (kbytes (KOwnerProv o p)))) p)) :pattern ((kbytes (KOwnerProv o p))))))
(assert (forall ((id Bytes)) (! (and (= (blen (kbytes (KCtx id))) (+ 1 (blen id))) (= (bslice (kbytes (KCtx id)) 1 (blen (kbytes (KCtx id)))) id)) :pattern ((kbytes (KCtx id))))))
(assert (forall ((id Bytes)) (! (and (= (blen (kbytes (KReq id))) (+ 1 (blen id))) (= (bslice (kbytes (KReq id)) 1 (blen (kbytes (KReq id)))) id)) :pattern ((kbytes (KReq id))))))
(assert (forall ((id Bytes)) (! (and (= (blen (kbytes (KResp id))) (+ 1 (blen id))) (= (bslice (kbytes (KResp id)) 1 (blen (kbytes (KResp id)))) id)) :pattern ((kbytes (KResp id))))))
(assert (forall ((o Bytes)) (! (and (= (blen (kbytes (KWAddr o))) (+ 1 (blen o))) (= (bslice (kbytes (KWAddr o)) 1 (blen (kbytes (KWAddr o)))) o)) :pattern ((kbytes (KWAddr o))))))
; clearing the earned-fee records of every provider listed under an owner (owner-mode withdrawal)
(declare-fun clrProv ((Array Key Bytes) (Array Key Bytes) Prefix Int) (Array Key Bytes))
(assert (forall ((r (Array Key Bytes)) (s (Array Key Bytes)) (p Prefix)) (! (= (clrProv r s p 0) r) :pattern ((clrProv r s p 0)))))
(assert (forall ((r (Array Key Bytes)) (s (Array Key Bytes)) (p Prefix) (n Int)) (! (=> (> n 0) (= (clrProv r s p n) (clearPfx (clrProv r s p (- n 1)) (PEarned (kop_prov (itKey s p (- n 1))))))) :pattern ((clrProv r s p n)))))

; ASSUME A7: response and state callbacks of other modules touch nothing of this module (ghost log of invocations only)
; ---- callbacks of other modules
(declare-fun cbResp (CbLog Bytes (Slice Str) Bool) CbLog)
(declare-fun cbState (CbLog Bytes Str) CbLog)
; non-empty outputs of the responses stored under a prefix, in key order
(declare-fun outsIt ((Array Key Bytes) Prefix Int) (Slice Str))
(assert (forall ((s (Array Key Bytes)) (p Prefix)) (! (= (outsIt s p 0) (mkSlice 0 zarr_Str)) :pattern ((outsIt s p 0)))))
(assert (forall ((s (Array Key Bytes)) (p Prefix) (n Int)) (! (=> (> n 0) (= (outsIt s p n)
   (let ((prev (outsIt s p (- n 1))) (o (Response_Output (dec_Response (select s (itKey s p (- n 1)))))))
     (ite (> (strlen o) 0) (mkSlice (+ (slen prev) 1) (store (sarr prev) (slen prev) o)) prev)))) :pattern ((outsIt s p n)))))
(define-fun outputsOf ((r (Array Key Bytes)) (id Bytes) (b Int)) (Slice Str) (outsIt r (PRespByCtx id b) (itCount r (PRespByCtx id b))))
; request reconstruction (GetRequest)
(define-fun requestOf ((r (Array Key Bytes)) (rid Bytes)) Request
  (let ((cr (reqOf r rid))) (let ((c (ctxOf r (CompactRequest_RequestContextId cr))))
    (mkRequest rid (RequestContext_ServiceName c) (CompactRequest_Provider cr) (RequestContext_Consumer c) (RequestContext_Input c)
       (CompactRequest_ServiceFee cr) (RequestContext_SuperMode c) (CompactRequest_RequestHeight cr) (CompactRequest_ExpirationHeight cr)
       (CompactRequest_RequestContextId cr) (CompactRequest_RequestContextBatchCounter cr)))))
(define-fun requestFound ((r (Array Key Bytes)) (rid Bytes)) Bool (and (reqFound r rid) (ctxFound r (CompactRequest_RequestContextId (reqOf r rid)))))

; ---- settlement helpers
(define-fun reqCtxId ((r (Array Key Bytes)) (rid Bytes)) Bytes (CompactRequest_RequestContextId (reqOf r rid)))
(define-fun reqSvc ((r (Array Key Bytes)) (rid Bytes)) Str (RequestContext_ServiceName (ctxOf r (reqCtxId r rid))))
(define-fun reqProv ((r (Array Key Bytes)) (rid Bytes)) Bytes (CompactRequest_Provider (reqOf r rid)))
(define-fun reqConsumer ((r (Array Key Bytes)) (rid Bytes)) Bytes (RequestContext_Consumer (ctxOf r (reqCtxId r rid))))
(define-fun reqFee ((r (Array Key Bytes)) (rid Bytes)) (Slice Coin) (CompactRequest_ServiceFee (reqOf r rid)))
(define-fun slashBurn ((r (Array Key Bytes)) (rid Bytes)) (Slice Coin)
  (newCoins (oneCoin baseDenom (decTrunc (decMul (decFromInt (amt (ServiceBinding_Deposit (bindOf r (reqSvc r rid) (reqProv r rid))) baseDenom)) (Params_SlashFraction params))))))
(define-fun malformed ((output Str)) Bool (and (> (strlen output) 0) (not (= (validateOutputErr output) NoErr))))

; clean-up of a batch's request and response records (CleanBatch): a key is cleaned iff it is a request of the batch,
; or the response of a request of the batch that was present
(define-fun cleanedKey ((old (Array Key Bytes)) (id Bytes) (b Int) (k Key)) Bool
  (or (and (is-KReq k) (inPfx k (PReqByCtx id b)))
      (and (is-KResp k) (not (= (select old (KReq (kresp_rid k))) bnil)) (inPfx (KReq (kresp_rid k)) (PReqByCtx id b)))))

; I_orphan (part): every pending marker has its request, context and binding, names its own request, and its consumer is an ordinary account
(define-fun actOK ((r (Array Key Bytes)) (rid Bytes)) Bool
  (=> (isActive r rid) (and (requestFound r rid) (ctxFound r (reqCtxId r rid)) (bindFound r (reqSvc r rid) (reqProv r rid)) (ordinary (reqConsumer r rid))
        (= (BytesValue_Value (dec_BytesValue (select r (KActID rid)))) rid)
        ; a recorded fee is a valid coin list, never negative, and empty for a super-mode context
        (coinsValid (reqFee r rid))
        (=> (RequestContext_SuperMode (ctxOf r (reqCtxId r rid))) (forall ((d Str)) (! (= (amt (reqFee r rid) d) 0) :pattern ((amt (reqFee r rid) d)))))
        (forall ((d Str)) (! (>= (amt (reqFee r rid) d) 0) :pattern ((amt (reqFee r rid) d))))
        ; the request id names its context and batch
        (= (ridCtx rid) (reqCtxId r rid)) (= (ridBatch rid) (CompactRequest_RequestContextBatchCounter (reqOf r rid)))
        ; a pending request belongs to the current, still open batch of its context
        (= (CompactRequest_RequestContextBatchCounter (reqOf r rid)) (RequestContext_BatchCounter (ctxOf r (reqCtxId r rid))))
        (not (= (RequestContext_BatchState (ctxOf r (reqCtxId r rid))) BATCHCOMPLETED)))))
; I_orphan (records): a request record belongs to the current batch of an existing context whose expiry is still pending;
; a response record has its request record
(define-fun recOK ((r (Array Key Bytes)) (rid Bytes)) Bool
  (and (=> (not (= (select r (KReq rid)) bnil))
           (and (ctxFound r (ridCtx rid)) (= (ridBatch rid) (RequestContext_BatchCounter (ctxOf r (ridCtx rid)))) (not (= (select r (KExpH (ridCtx rid))) bnil))))
       (=> (not (= (select r (KResp rid)) bnil)) (not (= (select r (KReq rid)) bnil)))))
(define-fun recInv ((r (Array Key Bytes))) Bool (forall ((rid Bytes)) (! (recOK r rid) :pattern ((select r (KReq rid))) :pattern ((select r (KResp rid))))))
; the two pending-request indexes list the same requests: the by-id marker of a pending request has its twin under
; (service, provider, expiration height, id), and every entry of that index is the twin of a by-id marker
(define-fun reqExp ((r (Array Key Bytes)) (rid Bytes)) Int (CompactRequest_ExpirationHeight (reqOf r rid)))
(define-fun idxOK ((r (Array Key Bytes)) (rid Bytes)) Bool
  (=> (isActive r rid) (not (= (select r (KActB (reqSvc r rid) (reqProv r rid) (reqExp r rid) rid)) bnil))))
(define-fun idxBOK ((r (Array Key Bytes)) (s Str) (p Bytes) (h Int) (rid Bytes)) Bool
  (=> (not (= (select r (KActB s p h rid)) bnil)) (and (isActive r rid) (= (reqSvc r rid) s) (= (reqProv r rid) p) (= (reqExp r rid) h))))
(define-fun idxAllA ((r (Array Key Bytes))) Bool (forall ((rid Bytes)) (! (idxOK r rid) :pattern ((select r (KActID rid))))))
(define-fun idxAllB ((r (Array Key Bytes))) Bool (forall ((s Str) (p Bytes) (h Int) (rid Bytes)) (! (idxBOK r s p h rid) :pattern ((select r (KActB s p h rid))))))
(define-fun idxInv ((r (Array Key Bytes))) Bool (and (idxAllA r) (idxAllB r)))
(define-fun actInv ((r (Array Key Bytes))) Bool (forall ((rid Bytes)) (! (actOK r rid) :pattern ((select r (KActID rid))))))

; ---- I_escrow (C01): what the request escrow owes: the fees of the requests still pending plus the earnings not yet withdrawn.
; Both are aggregates over the (finite) store with their point-update laws, like sumDep.
; (a) pending fees: sum over the pending markers KActID(rid) of the fee recorded in the request record KReq(rid)
(declare-fun pendView ((Array Key Bytes)) (Array Key Bytes))
(assert (forall ((r (Array Key Bytes)) (k Key)) (! (= (select (pendView r) k) (ite (or (is-KActID k) (is-KReq k)) (select r k) bnil)) :pattern ((select (pendView r) k)))))
(declare-fun sumPendV ((Array Key Bytes) Str) Int)
(define-fun sumPend ((r (Array Key Bytes)) (d Str)) Int (sumPendV (pendView r) d))
(define-fun pendFee ((r (Array Key Bytes)) (rid Bytes) (d Str)) Int
  (ite (= (select r (KActID rid)) bnil) 0 (amt (CompactRequest_ServiceFee (dec_CompactRequest (select r (KReq rid)))) d)))
(define-fun pendRid ((k Key)) Bytes (ite (is-KActID k) (kai_rid k) (kreq_rid k)))
(assert (forall ((r (Array Key Bytes)) (k Key) (v Bytes) (d Str)) (! (= (sumPend (store r k v) d)
   (ite (or (is-KActID k) (is-KReq k)) (+ (- (sumPend r d) (pendFee r (pendRid k) d)) (pendFee (store r k v) (pendRid k) d)) (sumPend r d)))
   :pattern ((sumPendV (pendView (store r k v)) d)))))
(assert (forall ((r1 (Array Key Bytes)) (r2 (Array Key Bytes)) (d Str)) (! (=> (= (pendView r1) (pendView r2)) (= (sumPendV (pendView r1) d) (sumPendV (pendView r2) d))) :pattern ((sumPendV (pendView r1) d) (sumPendV (pendView r2) d)))))
; (b) earnings: sum over the earned-fee records KEarned(provider, denom) of the amount recorded under denomination d
(declare-fun earnView ((Array Key Bytes)) (Array Key Bytes))
(assert (forall ((r (Array Key Bytes)) (k Key)) (! (= (select (earnView r) k) (ite (is-KEarned k) (select r k) bnil)) :pattern ((select (earnView r) k)))))
(declare-fun sumEarnV ((Array Key Bytes) Str) Int)
(define-fun sumEarn ((r (Array Key Bytes)) (d Str)) Int (sumEarnV (earnView r) d))
(define-fun earnAtKey ((k Key) (v Bytes) (d Str)) Int (ite (and (is-KEarned k) (= (kea_denom k) d) (not (= v bnil))) (Coin_Amount (dec_Coin v)) 0))
(assert (forall ((r (Array Key Bytes)) (k Key) (v Bytes) (d Str)) (! (= (sumEarn (store r k v) d) (+ (- (sumEarn r d) (earnAtKey k (select r k) d)) (earnAtKey k v d)))
   :pattern ((sumEarnV (earnView (store r k v)) d)))))
(assert (forall ((r1 (Array Key Bytes)) (r2 (Array Key Bytes)) (d Str)) (! (=> (= (earnView r1) (earnView r2)) (= (sumEarnV (earnView r1) d) (sumEarnV (earnView r2) d))) :pattern ((sumEarnV (earnView r1) d) (sumEarnV (earnView r2) d)))))
; clearing all records of one provider at once (DeleteEarnedFees) removes exactly that provider's amount
(assert (forall ((r (Array Key Bytes)) (p Bytes) (d Str)) (! (= (sumEarn (clearPfx r (PEarned p)) d) (- (sumEarn r d) (earnedAt r p d))) :pattern ((sumEarnV (earnView (clearPfx r (PEarned p))) d)))))
; a sum of non-negative terms is non-negative: if a sum is negative some term is (witness functions)
(declare-fun pendNegWit ((Array Key Bytes) Str) Bytes)
(assert (forall ((r (Array Key Bytes)) (d Str) (b (Array Bytes (Array Str Int))) (a Bytes) (c (Slice Coin))) (! (=> (< (sumPend r d) 0) (< (pendFee r (pendNegWit r d) d) 0)) :pattern ((sumPendV (pendView r) d) (canPay b a c)))))
; a sum of non-negative terms is at least each of its terms
(declare-fun pendGeWit ((Array Key Bytes) Bytes Str) Bytes)
(assert (forall ((r (Array Key Bytes)) (rid Bytes) (d Str) (b (Array Bytes (Array Str Int))) (a Bytes) (c (Slice Coin))) (! (=> (< (sumPend r d) (pendFee r rid d)) (< (pendFee r (pendGeWit r rid d) d) 0))
   :pattern ((sumPendV (pendView r) d) (select r (KActID rid)) (canPay b a c)))))
(declare-fun earnNegWit ((Array Key Bytes) Str) Bytes)
(assert (forall ((r (Array Key Bytes)) (d Str) (b (Array Bytes (Array Str Int))) (a Bytes) (c (Slice Coin))) (! (=> (< (sumEarn r d) 0) (< (earnedAt r (earnNegWit r d) d) 0)) :pattern ((sumEarnV (earnView r) d) (canPay b a c)))))
; equal terms give equal sums: two stores whose sums differ differ in some term (witness functions)
(declare-fun pendDiffWit ((Array Key Bytes) (Array Key Bytes) Str) Bytes)
(assert (forall ((r1 (Array Key Bytes)) (r2 (Array Key Bytes)) (d Str)) (! (=> (not (= (sumPend r1 d) (sumPend r2 d)))
   (not (= (pendFee r1 (pendDiffWit r1 r2 d) d) (pendFee r2 (pendDiffWit r1 r2 d) d)))) :pattern ((sumPendV (pendView r1) d) (sumPendV (pendView r2) d)))))
(declare-fun earnDiffWit ((Array Key Bytes) (Array Key Bytes) Str) Bytes)
(assert (forall ((r1 (Array Key Bytes)) (r2 (Array Key Bytes)) (d Str)) (! (=> (not (= (sumEarn r1 d) (sumEarn r2 d)))
   (not (= (earnedAt r1 (earnDiffWit r1 r2 d) d) (earnedAt r2 (earnDiffWit r1 r2 d) d)))) :pattern ((sumEarnV (earnView r1) d) (sumEarnV (earnView r2) d)))))
; the escrow is exactly backed
(define-fun escInv ((r (Array Key Bytes)) (b (Array Bytes (Array Str Int)))) Bool
  (forall ((d Str)) (! (= (select (select b requestAcc) d) (+ (sumPend r d) (sumEarn r d))) :pattern ((select (select b requestAcc) d)) :pattern ((sumPendV (pendView r) d)) :pattern ((sumEarnV (earnView r) d)))))
; recorded earnings are never negative
(define-fun earnNonneg ((r (Array Key Bytes))) Bool
  (forall ((p Bytes) (d Str)) (! (>= (earnedAt r p d) 0) :pattern ((select r (KEarned p d))))))

; the earnings of the first n providers of an owner (in the order of the owner-provider index), per denomination
(declare-fun ownSum ((Array Key Bytes) Bytes Int Str) Int)
(assert (forall ((r (Array Key Bytes)) (o Bytes) (d Str)) (! (= (ownSum r o 0 d) 0) :pattern ((ownSum r o 0 d)))))
(assert (forall ((r (Array Key Bytes)) (o Bytes) (n Int) (d Str)) (! (=> (> n 0) (= (ownSum r o n d)
   (+ (ownSum r o (- n 1) d) (earnedAt r (kop_prov (itKey r (POwnerProv o) (- n 1))) d)))) :pattern ((ownSum r o n d)))))
; I_owner (C13), as far as it is used: the owner's recorded total is the sum of its providers' earnings
(define-fun ownerTotalOK ((r (Array Key Bytes)) (o Bytes)) Bool
  (forall ((d Str)) (! (= (sumIt r (POwnerEarned o) (itCount r (POwnerEarned o)) d) (ownSum r o (itCount r (POwnerProv o)) d)) :pattern ((ownSum r o (itCount r (POwnerProv o)) d)))))

; ---- I_batch (C12): the number of pending markers of a context, an aggregate with its point-update law (like sumDep)
(declare-fun actView ((Array Key Bytes)) (Array Key Bytes))
(assert (forall ((r (Array Key Bytes)) (k Key)) (! (= (select (actView r) k) (ite (is-KActID k) (select r k) bnil)) :pattern ((select (actView r) k)))))
(declare-fun cntActV ((Array Key Bytes) Bytes) Int)
(define-fun cntAct ((r (Array Key Bytes)) (id Bytes)) Int (cntActV (actView r) id))
(define-fun actAt ((k Key) (v Bytes) (id Bytes)) Int (ite (and (is-KActID k) (= (ridCtx (kai_rid k)) id) (not (= v bnil))) 1 0))
(assert (forall ((r (Array Key Bytes)) (k Key) (v Bytes) (id Bytes)) (! (= (cntAct (store r k v) id) (+ (- (cntAct r id) (actAt k (select r k) id)) (actAt k v id))) :pattern ((cntActV (actView (store r k v)) id)))))
(assert (forall ((r1 (Array Key Bytes)) (r2 (Array Key Bytes)) (id Bytes)) (! (=> (= (actView r1) (actView r2)) (= (cntActV (actView r1) id) (cntActV (actView r2) id))) :pattern ((cntActV (actView r1) id) (cntActV (actView r2) id)))))
; a count is never negative; a present marker is counted; a positive count has a witness
(declare-fun actWit ((Array Key Bytes) Bytes) Bytes)
(assert (forall ((r (Array Key Bytes)) (id Bytes)) (! (and (>= (cntAct r id) 0)
   (=> (> (cntAct r id) 0) (and (not (= (select r (KActID (actWit r id))) bnil)) (= (ridCtx (actWit r id)) id)))) :pattern ((cntActV (actView r) id)))))
(assert (forall ((r (Array Key Bytes)) (rid Bytes)) (! (=> (not (= (select r (KActID rid)) bnil)) (>= (cntAct r (ridCtx rid)) 1)) :pattern ((select r (KActID rid)) (cntActV (actView r) (ridCtx rid))))))
; while a batch is open, its pending markers are the requests not yet answered; a completed batch has none
(define-fun batchOK ((r (Array Key Bytes)) (id Bytes)) Bool
  (=> (ctxFound r id) (= (cntAct r id) (ite (= (RequestContext_BatchState (ctxOf r id)) BATCHCOMPLETED) 0
        (- (RequestContext_BatchRequestCount (ctxOf r id)) (RequestContext_BatchResponseCount (ctxOf r id)))))))
(define-fun cntInv ((r (Array Key Bytes))) Bool (forall ((id Bytes)) (! (batchOK r id) :pattern ((select r (KCtx id))) :pattern ((cntActV (actView r) id)))))

; ---- genesis import: what InitGenesis writes for the first n definitions / bindings of a genesis file
(declare-fun wrDefs ((Array Key Bytes) (Slice ServiceDefinition) Int) (Array Key Bytes))
(assert (forall ((r (Array Key Bytes)) (ds (Slice ServiceDefinition))) (! (= (wrDefs r ds 0) r) :pattern ((wrDefs r ds 0)))))
(assert (forall ((r (Array Key Bytes)) (ds (Slice ServiceDefinition)) (n Int)) (! (=> (> n 0) (= (wrDefs r ds n)
   (store (wrDefs r ds (- n 1)) (KDef (ServiceDefinition_Name (select (sarr ds) (- n 1)))) (enc_ServiceDefinition (select (sarr ds) (- n 1)))))) :pattern ((wrDefs r ds n)))))
(define-fun wrBind1 ((r (Array Key Bytes)) (b ServiceBinding)) (Array Key Bytes)
  (store (store (store (store (store r
     (KBind (ServiceBinding_ServiceName b) (ServiceBinding_Provider b)) (enc_ServiceBinding b))
     (KOwnerBind (ServiceBinding_Owner b) (ServiceBinding_ServiceName b) (ServiceBinding_Provider b)) emptyVal)
     (KOwner (ServiceBinding_Provider b)) (enc_BytesValue (mkBytesValue (ServiceBinding_Owner b))))
     (KOwnerProv (ServiceBinding_Owner b) (ServiceBinding_Provider b)) emptyVal)
     (KPricing (ServiceBinding_ServiceName b) (ServiceBinding_Provider b)) (enc_Pricing (parsePricing (ServiceBinding_Pricing b)))))
(declare-fun wrBinds ((Array Key Bytes) (Slice ServiceBinding) Int) (Array Key Bytes))
(assert (forall ((r (Array Key Bytes)) (bs (Slice ServiceBinding))) (! (= (wrBinds r bs 0) r) :pattern ((wrBinds r bs 0)))))
(assert (forall ((r (Array Key Bytes)) (bs (Slice ServiceBinding)) (n Int)) (! (=> (> n 0) (= (wrBinds r bs n)
   (wrBind1 (wrBinds r bs (- n 1)) (select (sarr bs) (- n 1))))) :pattern ((wrBinds r bs n)))))

; ---- listings (queries): records under a prefix, in key order
(declare-fun bindsIt ((Array Key Bytes) Prefix Int) (Slice ServiceBinding))
(assert (forall ((s (Array Key Bytes)) (p Prefix)) (! (= (bindsIt s p 0) (mkSlice 0 zarr_ServiceBinding)) :pattern ((bindsIt s p 0)))))
(assert (forall ((s (Array Key Bytes)) (p Prefix) (n Int)) (! (=> (> n 0) (= (bindsIt s p n) (let ((prev (bindsIt s p (- n 1))))
   (mkSlice (+ (slen prev) 1) (store (sarr prev) (slen prev) (dec_ServiceBinding (select s (itKey s p (- n 1))))))))) :pattern ((bindsIt s p n)))))
(declare-fun defsIt ((Array Key Bytes) Prefix Int) (Slice ServiceDefinition))
(assert (forall ((s (Array Key Bytes)) (p Prefix)) (! (= (defsIt s p 0) (mkSlice 0 zarr_ServiceDefinition)) :pattern ((defsIt s p 0)))))
(assert (forall ((s (Array Key Bytes)) (p Prefix) (n Int)) (! (=> (> n 0) (= (defsIt s p n) (let ((prev (defsIt s p (- n 1))))
   (mkSlice (+ (slen prev) 1) (store (sarr prev) (slen prev) (dec_ServiceDefinition (select s (itKey s p (- n 1))))))))) :pattern ((defsIt s p n)))))
(declare-fun respsIt ((Array Key Bytes) Prefix Int) (Slice Response))
(assert (forall ((s (Array Key Bytes)) (p Prefix)) (! (= (respsIt s p 0) (mkSlice 0 zarr_Response)) :pattern ((respsIt s p 0)))))
(assert (forall ((s (Array Key Bytes)) (p Prefix) (n Int)) (! (=> (> n 0) (= (respsIt s p n) (let ((prev (respsIt s p (- n 1))))
   (mkSlice (+ (slen prev) 1) (store (sarr prev) (slen prev) (dec_Response (select s (itKey s p (- n 1))))))))) :pattern ((respsIt s p n)))))
; requests listed through pending markers (the marker value names the request) and through request keys
(define-fun requestOrZero ((r (Array Key Bytes)) (rid Bytes)) Request (ite (requestFound r rid) (requestOf r rid) zero_Request))
(declare-fun reqsByMarkerIt ((Array Key Bytes) Prefix Int) (Slice Request))
(assert (forall ((s (Array Key Bytes)) (p Prefix)) (! (= (reqsByMarkerIt s p 0) (mkSlice 0 zarr_Request)) :pattern ((reqsByMarkerIt s p 0)))))
(assert (forall ((s (Array Key Bytes)) (p Prefix) (n Int)) (! (=> (> n 0) (= (reqsByMarkerIt s p n) (let ((prev (reqsByMarkerIt s p (- n 1))))
   (mkSlice (+ (slen prev) 1) (store (sarr prev) (slen prev) (requestOrZero s (BytesValue_Value (dec_BytesValue (select s (itKey s p (- n 1))))))))))) :pattern ((reqsByMarkerIt s p n)))))
(declare-fun reqsByKeyIt ((Array Key Bytes) Prefix Int) (Slice Request))
(assert (forall ((s (Array Key Bytes)) (p Prefix)) (! (= (reqsByKeyIt s p 0) (mkSlice 0 zarr_Request)) :pattern ((reqsByKeyIt s p 0)))))
(assert (forall ((s (Array Key Bytes)) (p Prefix) (n Int)) (! (=> (> n 0) (= (reqsByKeyIt s p n) (let ((prev (reqsByKeyIt s p (- n 1))))
   (mkSlice (+ (slen prev) 1) (store (sarr prev) (slen prev) (requestOrZero s (kreq_rid (itKey s p (- n 1))))))))) :pattern ((reqsByKeyIt s p n)))))
; bindings of one owner: the owner index lists (service, provider) pairs; each is looked up in the primary records
(declare-fun ownerBindsIt ((Array Key Bytes) Prefix Int) (Slice ServiceBinding))
(assert (forall ((s (Array Key Bytes)) (p Prefix)) (! (= (ownerBindsIt s p 0) (mkSlice 0 zarr_ServiceBinding)) :pattern ((ownerBindsIt s p 0)))))
(assert (forall ((s (Array Key Bytes)) (p Prefix) (n Int)) (! (=> (> n 0) (= (ownerBindsIt s p n) (let ((prev (ownerBindsIt s p (- n 1))) (k (itKey s p (- n 1))))
   (ite (bindFound s (kob_svc k) (kob_prov k)) (mkSlice (+ (slen prev) 1) (store (sarr prev) (slen prev) (bindOf s (kob_svc k) (kob_prov k)))) prev)))) :pattern ((ownerBindsIt s p n)))))
; parsing an owner-index key (justified by the layout lemmas of layer K; service names contain no 0x00 byte)
(declare-fun unwrapCtx (Iface) Ctx)
(declare-fun bytesIndex (Bytes Bytes) Int)
(define-fun obTail ((s Str) (p Bytes)) Bytes (bconcat (s2b s) (bconcat (b1 0) p)))
(assert (forall ((o Bytes) (s Str) (p Bytes)) (! (and (= (blen (kbytes (KOwnerBind o s p))) (+ 2 (blen o) (strlen s) (blen p)))
   (=> (= (blen o) 20) (= (bslice (kbytes (KOwnerBind o s p)) 21 (blen (kbytes (KOwnerBind o s p)))) (obTail s p)))) :pattern ((kbytes (KOwnerBind o s p))))))
(assert (forall ((s Str) (p Bytes)) (! (and (= (blen (obTail s p)) (+ 1 (strlen s) (blen p))) (= (bytesIndex (obTail s p) g_types_EmptyByte) (strlen s))
   (= (b2s (bslice (obTail s p) 0 (strlen s))) s) (= (bslice (obTail s p) (+ (strlen s) 1) (blen (obTail s p))) p)) :pattern ((obTail s p)))))

; ---- zero-height preparation (C19)
; refunding every pending request fee to its consumer, in marker order
(declare-fun refundIt ((Array Bytes (Array Str Int)) (Array Key Bytes) Prefix Int) (Array Bytes (Array Str Int)))
(assert (forall ((b (Array Bytes (Array Str Int))) (s (Array Key Bytes)) (p Prefix)) (! (= (refundIt b s p 0) b) :pattern ((refundIt b s p 0)))))
(assert (forall ((b (Array Bytes (Array Str Int))) (s (Array Key Bytes)) (p Prefix) (n Int)) (! (=> (> n 0) (= (refundIt b s p n)
   (let ((rq (requestOrZero s (BytesValue_Value (dec_BytesValue (select s (itKey s p (- n 1))))))))
     (bankMove (refundIt b s p (- n 1)) (modAddr strlit_requestAcc) (Request_Consumer rq) (Request_ServiceFee rq))))) :pattern ((refundIt b s p n)))))
; returning every earned-fee record to the provider of its key
(declare-fun refundEarnedIt ((Array Bytes (Array Str Int)) (Array Key Bytes) Prefix Int) (Array Bytes (Array Str Int)))
(assert (forall ((b (Array Bytes (Array Str Int))) (s (Array Key Bytes)) (p Prefix)) (! (= (refundEarnedIt b s p 0) b) :pattern ((refundEarnedIt b s p 0)))))
(assert (forall ((b (Array Bytes (Array Str Int))) (s (Array Key Bytes)) (p Prefix) (n Int)) (! (=> (> n 0) (= (refundEarnedIt b s p n)
   (bankMove (refundEarnedIt b s p (- n 1)) (modAddr strlit_requestAcc) (kea_prov (itKey s p (- n 1)))
      (newCoins (mkSlice 1 (store zarr_Coin 0 (dec_Coin (select s (itKey s p (- n 1)))))))))) :pattern ((refundEarnedIt b s p n)))))
; earned-fee key parsing (layout lemma of layer K): key[1:] is provider || denom; stripping the denomination gives the provider
(assert (forall ((p Bytes) (d Str)) (! (and (= (blen (kbytes (KEarned p d))) (+ 1 (blen p) (strlen d)))
   (= (bslice (kbytes (KEarned p d)) 1 (blen (kbytes (KEarned p d)))) (bconcat p (s2b d)))
   (= (bslice (kbytes (KEarned p d)) 1 (- (blen (kbytes (KEarned p d))) (strlen d))) p)) :pattern ((kbytes (KEarned p d))))))
; every earned-fee record holds a coin of the denomination named in its key
(define-fun wfEarned ((r (Array Key Bytes))) Bool
  (forall ((p Bytes) (d Str)) (! (=> (not (= (select r (KEarned p d)) bnil)) (= (Coin_Denom (dec_Coin (select r (KEarned p d)))) d)) :pattern ((select r (KEarned p d))))))

; ---- I_sched: every queue entry names its own context, which exists, and agrees with the per-context pointer;
; a context with a batch in flight has no new batch pending
(define-fun ctxOK ((r (Array Key Bytes)) (id Bytes)) Bool
  (=> (ctxFound r id)
      (and (rng_RequestContext (ctxOf r id)) (<= (slen (RequestContext_Providers (ctxOf r id))) 32767)
           (ordinary (RequestContext_Consumer (ctxOf r id))) (> (RequestContext_Timeout (ctxOf r id)) 0)
           (<= (RequestContext_Timeout (ctxOf r id)) (Params_MaxRequestTimeout params))
           ; batches of a repeated context are at least a timeout apart
           (=> (RequestContext_Repeated (ctxOf r id)) (>= (RequestContext_RepeatedFrequency (ctxOf r id)) (RequestContext_Timeout (ctxOf r id))))
           ; a running context has a pending event
           (=> (= (RequestContext_State (ctxOf r id)) RUNNING) (or (not (= (select r (KExpH id)) bnil)) (not (= (select r (KNewH id)) bnil))))
           ; a batch in flight has its expiry scheduled
           (=> (not (= (RequestContext_BatchState (ctxOf r id)) BATCHCOMPLETED)) (not (= (select r (KExpH id)) bnil))))))
(define-fun expOK ((r (Array Key Bytes)) (h Int) (id Bytes)) Bool
  (=> (not (= (select r (KExpQ h id)) bnil))
      (and (<= (- 9223372036854775808) h) (<= h 9223372036854775807) (= (select r (KExpQ h id)) (idVal id)) (ctxFound r id)
           (= (select r (KExpH id)) (hVal h)) (= (select r (KNewH id)) bnil))))
(define-fun newOK ((r (Array Key Bytes)) (h Int) (id Bytes)) Bool
  (=> (not (= (select r (KNewQ h id)) bnil))
      (and (<= (- 9223372036854775808) h) (<= h 9223372036854775807) (= (select r (KNewQ h id)) (idVal id)) (ctxFound r id)
           (= (select r (KNewH id)) (hVal h))
           ; a context waiting for its next batch has no batch in flight
           (= (RequestContext_BatchState (ctxOf r id)) BATCHCOMPLETED))))
(define-fun ctxAllOK ((r (Array Key Bytes))) Bool (forall ((id Bytes)) (! (ctxOK r id) :pattern ((select r (KCtx id))))))
(define-fun expAllOK ((r (Array Key Bytes))) Bool (forall ((h Int) (id Bytes)) (! (expOK r h id) :pattern ((select r (KExpQ h id))))))
(define-fun newAllOK ((r (Array Key Bytes))) Bool (forall ((h Int) (id Bytes)) (! (newOK r h id) :pattern ((select r (KNewQ h id))))))
; the per-context pointers name existing queue entries
(define-fun hOfVal ((v Bytes)) Int (Int64Value_Value (dec_Int64Value v)))
(define-fun ptrOK ((r (Array Key Bytes)) (id Bytes)) Bool
  (and (=> (not (= (select r (KExpH id)) bnil)) (not (= (select r (KExpQ (hOfVal (select r (KExpH id))) id)) bnil)))
       (=> (not (= (select r (KNewH id)) bnil)) (not (= (select r (KNewQ (hOfVal (select r (KNewH id))) id)) bnil)))))
(define-fun ptrAllOK ((r (Array Key Bytes))) Bool (forall ((id Bytes)) (! (ptrOK r id) :pattern ((select r (KExpH id))) :pattern ((select r (KNewH id))))))
(define-fun schedInv ((r (Array Key Bytes))) Bool (and (ctxAllOK r) (expAllOK r) (newAllOK r) (ptrAllOK r)))

; every stored definition is stored under its own name (written only by AddServiceDefinition / genesis import under KDef(def.Name))
(define-fun defInv ((r (Array Key Bytes))) Bool
  (forall ((name Str)) (! (=> (not (= (select r (KDef name)) bnil)) (= (ServiceDefinition_Name (dec_ServiceDefinition (select r (KDef name)))) name)) :pattern ((select r (KDef name))))))
; the record-level validity rules of a binding (what ServiceBinding.Validate is proved to enforce; part of WF)
(define-fun bindRecOK ((b ServiceBinding)) Bool
  (and (> (blen (ServiceBinding_Provider b)) 0) (> (blen (ServiceBinding_Owner b)) 0) (coinsValid (ServiceBinding_Deposit b)) (> (ServiceBinding_QoS b) 0)))
; ASSUME A17: prefix iteration lists the present keys of the prefix in the lexicographic order of their bytes, so two stores with the same present keys under a prefix are iterated identically (used only by the second-export lemmas of C19)
; prefix iteration lists the present keys of the prefix in the lexicographic order of their bytes: two stores with the same present keys
; under a prefix are iterated identically (used only by the lemmas about a second export, C19)
(define-fun samePresence ((r1 (Array Key Bytes)) (r2 (Array Key Bytes)) (p Prefix)) Bool
  (forall ((k Key)) (! (=> (inPfx k p) (= (= (select r1 k) bnil) (= (select r2 k) bnil))) :pattern ((select r1 k)) :pattern ((select r2 k)))))
(assert (forall ((r1 (Array Key Bytes)) (r2 (Array Key Bytes)) (p Prefix)) (! (=> (samePresence r1 r2 p) (= (itCount r1 p) (itCount r2 p))) :pattern ((itCount r1 p) (itCount r2 p)))))
(assert (forall ((r1 (Array Key Bytes)) (r2 (Array Key Bytes)) (p Prefix) (i Int)) (! (=> (and (samePresence r1 r2 p) (<= 0 i) (< i (itCount r1 p))) (= (itKey r1 p i) (itKey r2 p i)))
   :pattern ((itKey r1 p i) (itKey r2 p i)))))
; ---- the state right after genesis import (A0, base case of the inductions): no record of the families that only the
; running module writes (requests, responses, pending markers, both queues and their pointers, earnings, volumes)
(define-fun runtimeKey ((k Key)) Bool (or (is-KReq k) (is-KResp k) (is-KActID k) (is-KActB k) (is-KExpQ k) (is-KExpH k) (is-KNewQ k) (is-KNewH k)
  (is-KEarned k) (is-KOwnerEarned k) (is-KVol k)))
(define-fun noRuntimeRecords ((r (Array Key Bytes))) Bool (forall ((k Key)) (! (=> (runtimeKey k) (= (select r k) bnil)) :pattern ((select r k)))))
(define-fun emptyStore ((r (Array Key Bytes))) Bool (forall ((k Key)) (! (= (select r k) bnil) :pattern ((select r k)))))
; the static part of a well-formed context record (what ctxOK requires besides the scheduling facts)
(define-fun ctxStaticOK ((c RequestContext)) Bool
  (and (rng_RequestContext c) (<= (slen (RequestContext_Providers c)) 32767) (ordinary (RequestContext_Consumer c)) (> (RequestContext_Timeout c) 0)
       (<= (RequestContext_Timeout c) (Params_MaxRequestTimeout params))
       (=> (RequestContext_Repeated c) (>= (RequestContext_RepeatedFrequency c) (RequestContext_Timeout c)))))
; finite sums: the sum over no terms is zero (the three aggregates over a view without records)
(declare-const noRecords (Array Key Bytes))
(assert (forall ((k Key)) (! (= (select noRecords k) bnil) :pattern ((select noRecords k)))))
(assert (forall ((d Str)) (! (= (sumPendV noRecords d) 0) :pattern ((sumPendV noRecords d)))))
(assert (forall ((d Str)) (! (= (sumEarnV noRecords d) 0) :pattern ((sumEarnV noRecords d)))))
(assert (forall ((d Str)) (! (= (sumDepV noRecords d) 0) :pattern ((sumDepV noRecords d)))))
; A14 as an axiom on stored contexts
(assert (forall ((r (Array Key Bytes)) (id Bytes)) (! (=> (ctxFound r id) (< (RequestContext_BatchCounter (ctxOf r id)) 9223372036854775808)) :pattern ((RequestContext_BatchCounter (dec_RequestContext (select r (KCtx id))))))))
; ---- I_cad (C10): ghostMaxTot[id] is an arbitrary (universally quantified) record of "the largest total that was ever in force"
; for context id, an unlimited total (-1) counting as infinity; maxNext is its value after a step that leaves store r
(declare-const ghostMaxTot (Array Bytes Int))
(define-fun effTotal ((c RequestContext)) Int (ite (< (RequestContext_RepeatedTotal c) 0) 18446744073709551616 (RequestContext_RepeatedTotal c)))
(declare-fun maxNext ((Array Bytes Int) (Array Key Bytes)) (Array Bytes Int))
(assert (forall ((M (Array Bytes Int)) (r (Array Key Bytes)) (id Bytes)) (! (= (select (maxNext M r) id)
   (ite (and (ctxFound r id) (RequestContext_Repeated (ctxOf r id)) (> (effTotal (ctxOf r id)) (select M id))) (effTotal (ctxOf r id)) (select M id))) :pattern ((select (maxNext M r) id)))))
(define-fun cadOK ((r (Array Key Bytes)) (M (Array Bytes Int)) (id Bytes)) Bool
  (=> (ctxFound r id)
      (and ; the record dominates the total in force
           (=> (RequestContext_Repeated (ctxOf r id)) (<= (effTotal (ctxOf r id)) (select M id)))
           ; a repeated context never got more batches than the largest total ever in force; a one-shot never more than one
           (ite (RequestContext_Repeated (ctxOf r id)) (<= (RequestContext_BatchCounter (ctxOf r id)) (select M id)) (<= (RequestContext_BatchCounter (ctxOf r id)) 1))
           ; and a queued next batch will not break that
           (=> (not (= (select r (KNewH id)) bnil))
               (ite (RequestContext_Repeated (ctxOf r id)) (< (RequestContext_BatchCounter (ctxOf r id)) (select M id)) (= (RequestContext_BatchCounter (ctxOf r id)) 0))))))
(define-fun cadInv ((r (Array Key Bytes)) (M (Array Bytes Int))) Bool
  (forall ((id Bytes)) (! (cadOK r M id) :pattern ((select r (KCtx id))) :pattern ((select r (KNewH id))))))
; context id, whose consumer is a, is running with a batch in flight (what the new-batch handler leaves behind when it charges a)
(define-fun issuedNow ((r (Array Key Bytes)) (id Bytes) (a Bytes)) Bool
  (and (ctxFound r id) (= (RequestContext_Consumer (ctxOf r id)) a) (= (RequestContext_State (ctxOf r id)) RUNNING)
       (= (RequestContext_BatchState (ctxOf r id)) BATCHRUNNING) (not (= (select r (KExpH id)) bnil))))
; no scheduled event lies before height H
(define-fun futInv ((r (Array Key Bytes)) (H Int)) Bool
  (and (forall ((h Int) (id Bytes)) (! (=> (not (= (select r (KExpQ h id)) bnil)) (>= h H)) :pattern ((select r (KExpQ h id)))))
       (forall ((h Int) (id Bytes)) (! (=> (not (= (select r (KNewQ h id)) bnil)) (>= h H)) :pattern ((select r (KNewQ h id)))))))
