; ---- state theory: abstraction axioms (justified by layer K, property C18) and typed views of the store.
(assert (forall ((k Key)) (! (= (keyOf (kbytes k)) k) :pattern ((kbytes k)))))
(assert (forall ((p Prefix)) (! (= (pfxOf (pbytes p)) p) :pattern ((pbytes p)))))
(assert (forall ((k Key)) (! (not (= (kbytes k) bnil)) :pattern ((kbytes k)))))
; exact prefix scans (justified by the prefix-exactness lemmas of layer K)
(define-fun inPfx ((k Key) (p Prefix)) Bool
  (ite (is-PAllDef p) (is-KDef k)
  (ite (is-PAllBind p) (is-KBind k)
  (ite (is-PBindSvc p) (and (is-KBind k) (= (kbind_svc k) (pbs_svc p)))
  (ite (is-POwnerBind p) (and (is-KOwnerBind k) (= (kob_owner k) (pob_owner p)) (= (kob_svc k) (pob_svc p)))
  (ite (is-POwnerProv p) (and (is-KOwnerProv k) (= (kop_owner k) (pop_owner p)))
  (ite (is-PAllWAddr p) (is-KWAddr k)
  (ite (is-PAllCtx p) (is-KCtx k)
  (ite (is-PExpQ p) (and (is-KExpQ k) (= (keq_h k) (peq_h p)))
  (ite (is-PNewQ p) (and (is-KNewQ k) (= (knq_h k) (pnq_h p)))
  (ite (is-PAllReq p) (is-KReq k)
  (ite (is-PReqByCtx p) (and (is-KReq k) (= (ridCtx (kreq_rid k)) (prc_id p)) (= (ridBatch (kreq_rid k)) (prc_b p)))
  (ite (is-PAllAct p) (is-KActB k)
  (ite (is-PActBind p) (and (is-KActB k) (= (kab_svc k) (pab_svc p)) (= (kab_prov k) (pab_prov p)))
  (ite (is-PActByCtx p) (and (is-KActID k) (= (ridCtx (kai_rid k)) (pac_id p)) (= (ridBatch (kai_rid k)) (pac_b p)))
  (ite (is-PAllResp p) (is-KResp k)
  (ite (is-PRespByCtx p) (and (is-KResp k) (= (ridCtx (kresp_rid k)) (prr_id p)) (= (ridBatch (kresp_rid k)) (prr_b p)))
  (ite (is-PEarned p) (and (is-KEarned k) (= (kea_prov k) (pea_prov p)))
  (ite (is-PAllEarned p) (is-KEarned k)
  (ite (is-POwnerEarned p) (and (is-KOwnerEarned k) (= (koe_owner k) (poe_owner p)))
  false))))))))))))))))))))

; prefix iterators over a snapshot
(declare-fun itCount ((Array Key Bytes) Prefix) Int)
(declare-fun itKey ((Array Key Bytes) Prefix Int) Key)
(declare-fun itIdx ((Array Key Bytes) Prefix Key) Int)
(assert (forall ((s (Array Key Bytes)) (p Prefix)) (! (<= 0 (itCount s p)) :pattern ((itCount s p)))))
(assert (forall ((s (Array Key Bytes)) (p Prefix) (i Int)) (! (=> (and (<= 0 i) (< i (itCount s p)))
    (and (inPfx (itKey s p i) p) (not (= (select s (itKey s p i)) bnil)) (= (itIdx s p (itKey s p i)) i)))
  :pattern ((itKey s p i)))))
(assert (forall ((s (Array Key Bytes)) (p Prefix) (k Key)) (! (=> (and (inPfx k p) (not (= (select s k) bnil)))
    (and (<= 0 (itIdx s p k)) (< (itIdx s p k) (itCount s p)) (= (itKey s p (itIdx s p k)) k)))
  :pattern ((itIdx s p k)))))

; views
(define-fun bindFound ((r (Array Key Bytes)) (s Str) (p Bytes)) Bool (not (= (select r (KBind s p)) bnil)))
(define-fun bindOf ((r (Array Key Bytes)) (s Str) (p Bytes)) ServiceBinding (dec_ServiceBinding (select r (KBind s p))))
(define-fun defFound ((r (Array Key Bytes)) (s Str)) Bool (not (= (select r (KDef s)) bnil)))
(define-fun ctxFound ((r (Array Key Bytes)) (id Bytes)) Bool (not (= (select r (KCtx id)) bnil)))
(define-fun ctxOf ((r (Array Key Bytes)) (id Bytes)) RequestContext (dec_RequestContext (select r (KCtx id))))
(define-fun ctxOrZero ((r (Array Key Bytes)) (id Bytes)) RequestContext (ite (ctxFound r id) (ctxOf r id) zero_RequestContext))
(define-fun pricingOf ((r (Array Key Bytes)) (s Str) (p Bytes)) Pricing (ite (= (select r (KPricing s p)) bnil) zero_Pricing (dec_Pricing (select r (KPricing s p)))))
(define-fun ownerFound ((r (Array Key Bytes)) (p Bytes)) Bool (not (= (select r (KOwner p)) bnil)))
(define-fun ownerOf ((r (Array Key Bytes)) (p Bytes)) Bytes (ite (ownerFound r p) (BytesValue_Value (dec_BytesValue (select r (KOwner p)))) bnil))
(define-fun volOf ((r (Array Key Bytes)) (c Bytes) (s Str) (p Bytes)) Int (ite (= (select r (KVol c s p)) bnil) 0 (UInt64Value_Value (dec_UInt64Value (select r (KVol c s p))))))
(define-fun reqFound ((r (Array Key Bytes)) (rid Bytes)) Bool (not (= (select r (KReq rid)) bnil)))
(define-fun reqOf ((r (Array Key Bytes)) (rid Bytes)) CompactRequest (dec_CompactRequest (select r (KReq rid))))
(define-fun isActive ((r (Array Key Bytes)) (rid Bytes)) Bool (not (= (select r (KActID rid)) bnil)))
(define-fun withdrawAddrOf ((r (Array Key Bytes)) (o Bytes)) Bytes (ite (= (select r (KWAddr o)) bnil) o (select r (KWAddr o))))

; minimum deposit of property C14: max(MinDeposit, base price x multiple) with sdk.Coins' IsAllLT
(define-fun minDepositOf ((pr Pricing)) (Slice Coin)
  (let ((m (newCoins (oneCoin baseDenom (* (amt (Pricing_Price pr) baseDenom) (Params_MinDepositMultiple params))))))
    (ite (isAllLT m (Params_MinDeposit params)) (Params_MinDeposit params) m)))

; block header
(declare-fun ctxHeader (Ctx) Header)
(declare-fun fld_Header_Time (Header) Int)
(assert (forall ((c Ctx)) (! (= (fld_Header_Time (ctxHeader c)) (ctxTime c)) :pattern ((ctxHeader c)))))

; string renderings
(declare-fun hexstr (Bytes) Str)

; representation assumption (A11): every Pricing decoded from the store was produced by ParsePricing, whose price
; amounts are non-negative (it builds them with sdk.NewCoin, which panics on negative amounts)
(assert (forall ((b Bytes) (d Str)) (! (>= (amt (Pricing_Price (dec_Pricing b)) d) 0) :pattern ((amt (Pricing_Price (dec_Pricing b)) d)))))
(assert (forall ((s Str) (d Str)) (! (>= (amt (Pricing_Price (parsePricing s)) d) 0) :pattern ((amt (Pricing_Price (parsePricing s)) d)))))

; representation invariant WF: stored records agree with the key they are stored under; binding owners are
; ordinary accounts (they signed the bind message: A3)
(define-fun ordinary ((a Bytes)) Bool (and (not (= a (modAddr strlit_depositAcc))) (not (= a (modAddr strlit_requestAcc))) (not (= a (modAddr strlit_feeCollector)))))
(define-fun wfBindAt ((r (Array Key Bytes)) (s Str) (p Bytes)) Bool
  (=> (bindFound r s p) (and (= (ServiceBinding_ServiceName (bindOf r s p)) s) (= (ServiceBinding_Provider (bindOf r s p)) p)
        (rng_ServiceBinding (bindOf r s p)) (ordinary (ServiceBinding_Owner (bindOf r s p)))
        (forall ((d Str)) (! (>= (amt (ServiceBinding_Deposit (bindOf r s p)) d) 0) :pattern ((amt (ServiceBinding_Deposit (bindOf r s p)) d)))))))
(define-fun WF ((r (Array Key Bytes))) Bool
  (forall ((s Str) (p Bytes)) (! (wfBindAt r s p) :pattern ((select r (KBind s p))))))

; ---- aggregates: uninterpreted with their point-update law
(define-fun emptyVal () Bytes (bbuf (bzeros 0) 0 0))
(define-fun depositAcc () Bytes (modAddr strlit_depositAcc))
(define-fun requestAcc () Bytes (modAddr strlit_requestAcc))
; deposit recorded under a key (0 unless the key is a binding key holding a binding)
(define-fun depAt ((k Key) (v Bytes) (d Str)) Int (ite (and (is-KBind k) (not (= v bnil))) (amt (ServiceBinding_Deposit (dec_ServiceBinding v)) d) 0))
(declare-fun sumDep ((Array Key Bytes) Str) Int)
(assert (forall ((r (Array Key Bytes)) (k Key) (v Bytes) (d Str)) (! (= (sumDep (store r k v) d) (+ (- (sumDep r d) (depAt k (select r k) d)) (depAt k v d))) :pattern ((sumDep (store r k v) d)))))
; I_dep (property C03): the deposit account holds exactly the recorded deposits
(define-fun depInv ((r (Array Key Bytes)) (b (Array Bytes (Array Str Int)))) Bool
  (forall ((d Str)) (! (= (select (select b depositAcc) d) (sumDep r d)) :pattern ((select (select b depositAcc) d)) :pattern ((sumDep r d)))))

; the package-level prefixes used directly as scan prefixes
(assert (= g_types_ServiceDefinitionKey (pbytes PAllDef)))
(assert (= g_types_ServiceBindingKey (pbytes PAllBind)))
(assert (= g_types_WithdrawAddrKey (pbytes PAllWAddr)))
(assert (= g_types_RequestContextKey (pbytes PAllCtx)))
(assert (= g_types_RequestKey (pbytes PAllReq)))
(assert (= g_types_ActiveRequestKey (pbytes PAllAct)))
(assert (= g_types_ResponseKey (pbytes PAllResp)))
(assert (= g_types_EarnedFeesKey (pbytes PAllEarned)))
