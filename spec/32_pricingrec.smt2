; ---- pricingrec theory: the same selectors as 30_pricing, given by recursive definitions instead of characteristic axioms.
; Used only to obtain and re-check concrete counterexamples (replay); never loaded together with "pricing".
(define-fun inWindow ((p PromotionByTime) (t Int)) Bool (and (<= (PromotionByTime_StartTime p) t) (< t (PromotionByTime_EndTime p))))
(define-fun-rec firstWindowFrom ((pr Pricing) (t Int) (i Int)) Int
  (ite (or (< i 0) (>= i (slen (Pricing_PromotionsByTime pr)))) (ite (< (slen (Pricing_PromotionsByTime pr)) 0) 0 (slen (Pricing_PromotionsByTime pr)))
       (ite (inWindow (select (sarr (Pricing_PromotionsByTime pr)) i) t) i (firstWindowFrom pr t (+ i 1)))))
(define-fun firstWindow ((pr Pricing) (t Int)) Int (firstWindowFrom pr t 0))
(define-fun discountByTime ((pr Pricing) (t Int)) Int
  (ite (< (firstWindow pr t) (slen (Pricing_PromotionsByTime pr)))
       (PromotionByTime_Discount (select (sarr (Pricing_PromotionsByTime pr)) (firstWindow pr t)))
       decOne))
(define-fun volAt ((pr Pricing) (j Int)) Int (PromotionByVolume_Volume (select (sarr (Pricing_PromotionsByVolume pr)) j)))
(define-fun-rec firstAboveFrom ((pr Pricing) (v Int) (i Int)) Int
  (ite (or (< i 0) (>= i (slen (Pricing_PromotionsByVolume pr)))) (ite (< (slen (Pricing_PromotionsByVolume pr)) 0) 0 (slen (Pricing_PromotionsByVolume pr)))
       (ite (< v (volAt pr i)) i (firstAboveFrom pr v (+ i 1)))))
(define-fun firstAbove ((pr Pricing) (v Int)) Int (firstAboveFrom pr v 0))
(define-fun discountByVolume ((pr Pricing) (v Int)) Int
  (ite (= (firstAbove pr v) 0) decOne
       (PromotionByVolume_Discount (select (sarr (Pricing_PromotionsByVolume pr)) (- (firstAbove pr v) 1)))))
(define-fun windowOK ((pr Pricing) (i Int)) Bool
  (let ((p (select (sarr (Pricing_PromotionsByTime pr)) i)))
    (and (> (PromotionByTime_EndTime p) (PromotionByTime_StartTime p))
         (=> (> i 0) (>= (PromotionByTime_StartTime p) (PromotionByTime_EndTime (select (sarr (Pricing_PromotionsByTime pr)) (- i 1))))))))
(define-fun volumeOK ((pr Pricing) (i Int)) Bool (=> (> i 0) (>= (volAt pr i) (volAt pr (- i 1)))))
(define-fun-rec windowsOKFrom ((pr Pricing) (i Int)) Bool (ite (or (< i 0) (>= i (slen (Pricing_PromotionsByTime pr)))) true (and (windowOK pr i) (windowsOKFrom pr (+ i 1)))))
(define-fun-rec volumesOKFrom ((pr Pricing) (i Int)) Bool (ite (or (< i 0) (>= i (slen (Pricing_PromotionsByVolume pr)))) true (and (volumeOK pr i) (volumesOKFrom pr (+ i 1)))))
(define-fun validPricing ((pr Pricing)) Bool (and (windowsOKFrom pr 0) (volumesOKFrom pr 0)))
