; ---- price theory (needs state + pricing): the fee of property C07
; fee = max(1, trunc(base x dT x dV)) in the base denomination
(define-fun priceDec ((r (Array Key Bytes)) (t Int) (cons Bytes) (s Str) (p Bytes)) Int
  (decMul (decMul (decFromInt (amt (Pricing_Price (pricingOf r s p)) baseDenom)) (discountByTime (pricingOf r s p) t))
          (discountByVolume (pricingOf r s p) (volOf r cons s p))))
(define-fun priceOf ((r (Array Key Bytes)) (t Int) (cons Bytes) (s Str) (p Bytes)) Int
  (ite (< (priceDec r t cons s p) decOne) 1 (decTrunc (priceDec r t cons s p))))
(define-fun priceCoins ((r (Array Key Bytes)) (t Int) (cons Bytes) (s Str) (p Bytes)) (Slice Coin)
  (newCoins (oneCoin baseDenom (priceOf r t cons s p))))
