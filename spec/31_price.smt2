; ---- price theory (needs state + pricing): the fee of property C07
; fee = max(1, trunc(base x dT x dV)) in the base denomination
(define-fun priceDec ((r (Array Key Bytes)) (t Int) (cons Bytes) (s Str) (p Bytes)) Int
  (decMul (decMul (decFromInt (amt (Pricing_Price (pricingOf r s p)) baseDenom)) (discountByTime (pricingOf r s p) t))
          (discountByVolume (pricingOf r s p) (volOf r cons s p))))
; priceOf / priceCoins are opaque symbols with a defining axiom (instantiated only where the term occurs)
(declare-fun priceOf ((Array Key Bytes) Int Bytes Str Bytes) Int)
(assert (forall ((r (Array Key Bytes)) (t Int) (cons Bytes) (s Str) (p Bytes)) (! (= (priceOf r t cons s p)
  (ite (< (priceDec r t cons s p) decOne) 1 (decTrunc (priceDec r t cons s p)))) :pattern ((priceOf r t cons s p)))))
(declare-fun priceCoins ((Array Key Bytes) Int Bytes Str Bytes) (Slice Coin))
(assert (forall ((r (Array Key Bytes)) (t Int) (cons Bytes) (s Str) (p Bytes)) (! (= (priceCoins r t cons s p)
  (newCoins (oneCoin baseDenom (priceOf r t cons s p)))) :pattern ((priceCoins r t cons s p)))))

; ---- eligibility filter of property C06 (recursive over the provider list, in order)
(define-fun eligible ((r (Array Key Bytes)) (t Int) (svc Str) (timeout Int) (cap (Slice Coin)) (cons Bytes) (p Bytes)) Bool
  (and (bindFound r svc p) (ServiceBinding_Available (bindOf r svc p)) (<= (ServiceBinding_QoS (bindOf r svc p)) (wrap_u64 timeout))
       (isAllLTE (priceCoins r t cons svc p) cap)))
(declare-fun filtIt ((Array Key Bytes) Int Str Int (Slice Coin) Bytes (Slice Bytes) Int) (Slice Bytes))
(declare-fun totIt ((Array Key Bytes) Int Str Int (Slice Coin) Bytes (Slice Bytes) Int) (Slice Coin))
(assert (forall ((r (Array Key Bytes)) (t Int) (svc Str) (to Int) (cap (Slice Coin)) (cons Bytes) (ps (Slice Bytes)))
  (! (= (filtIt r t svc to cap cons ps 0) (mkSlice 0 zarr_Bytes)) :pattern ((filtIt r t svc to cap cons ps 0)))))
(assert (forall ((r (Array Key Bytes)) (t Int) (svc Str) (to Int) (cap (Slice Coin)) (cons Bytes) (ps (Slice Bytes)))
  (! (= (totIt r t svc to cap cons ps 0) (mkSlice 0 zarr_Coin)) :pattern ((totIt r t svc to cap cons ps 0)))))
(assert (forall ((r (Array Key Bytes)) (t Int) (svc Str) (to Int) (cap (Slice Coin)) (cons Bytes) (ps (Slice Bytes)) (n Int))
  (! (=> (> n 0) (let ((prev (filtIt r t svc to cap cons ps (- n 1))) (p (select (sarr ps) (- n 1))))
      (= (filtIt r t svc to cap cons ps n) (ite (eligible r t svc to cap cons p) (mkSlice (+ (slen prev) 1) (store (sarr prev) (slen prev) p)) prev))))
     :pattern ((filtIt r t svc to cap cons ps n)))))
(assert (forall ((r (Array Key Bytes)) (t Int) (svc Str) (to Int) (cap (Slice Coin)) (cons Bytes) (ps (Slice Bytes)) (n Int))
  (! (=> (> n 0) (let ((prev (totIt r t svc to cap cons ps (- n 1))) (p (select (sarr ps) (- n 1))))
      (= (totIt r t svc to cap cons ps n) (ite (eligible r t svc to cap cons p) (coinsAdd prev (priceCoins r t cons svc p)) prev))))
     :pattern ((totIt r t svc to cap cons ps n)))))
; every listed provider with a binding quotes its price in the base denomination
(define-fun allBase ((r (Array Key Bytes)) (svc Str) (ps (Slice Bytes))) Bool
  (forall ((i Int)) (! (=> (and (<= 0 i) (< i (slen ps)) (bindFound r svc (select (sarr ps) i)))
       (= (Coin_Denom (select (sarr (Pricing_Price (pricingOf r svc (select (sarr ps) i)))) 0)) baseDenom)) :pattern ((select (sarr ps) i)))))

; ---- the sum of the current prices of the first m providers of a list (what issuing requests to them records as fees)
(declare-fun priceSum ((Array Key Bytes) Int Bytes Str (Slice Bytes) Int Str) Int)
(assert (forall ((r (Array Key Bytes)) (t Int) (cons Bytes) (svc Str) (L (Slice Bytes)) (d Str)) (! (= (priceSum r t cons svc L 0 d) 0) :pattern ((priceSum r t cons svc L 0 d)))))
(assert (forall ((r (Array Key Bytes)) (t Int) (cons Bytes) (svc Str) (L (Slice Bytes)) (m Int) (d Str)) (! (=> (> m 0) (= (priceSum r t cons svc L m d)
   (+ (priceSum r t cons svc L (- m 1) d) (amt (priceCoins r t cons svc (select (sarr L) (- m 1))) d)))) :pattern ((priceSum r t cons svc L m d)))))
; A15 (assumption of the escrow invariant): every binding quotes its price in the base denomination
(define-fun pricesInBase ((r (Array Key Bytes))) Bool
  (forall ((s Str) (p Bytes)) (! (=> (bindFound r s p) (= (Coin_Denom (select (sarr (Pricing_Price (pricingOf r s p))) 0)) baseDenom)) :pattern ((select r (KPricing s p))))))
; ---- issuing the requests of a batch (InitiateRequests): one request record and two pending markers per provider
(define-fun issuedReq ((r (Array Key Bytes)) (t Int) (h Int) (id Bytes) (c RequestContext) (cnt Int) (p Bytes)) CompactRequest
  (mkCompactRequest id cnt p (ite (RequestContext_SuperMode c) noCoins (priceCoins r t (RequestContext_Consumer c) (RequestContext_ServiceName c) p))
     h (wrap_i64 (+ h (RequestContext_Timeout c)))))
; x is one of the first n request ids of batch cnt of context id issued at height h
(define-fun issuedIn ((x Bytes) (id Bytes) (cnt Int) (h Int) (n Int)) Bool (and (= x (mkRID id cnt h (ridIndex x))) (<= 0 (ridIndex x)) (< (ridIndex x) n)))
(declare-fun issueIt ((Array Key Bytes) Int Int Bytes RequestContext Int (Slice Bytes) Int) (Array Key Bytes))
(assert (forall ((r (Array Key Bytes)) (t Int) (h Int) (id Bytes) (c RequestContext) (cnt Int) (ps (Slice Bytes)))
  (! (= (issueIt r t h id c cnt ps 0) r) :pattern ((issueIt r t h id c cnt ps 0)))))
(assert (forall ((r (Array Key Bytes)) (t Int) (h Int) (id Bytes) (c RequestContext) (cnt Int) (ps (Slice Bytes)) (n Int))
  (! (=> (> n 0) (let ((p (select (sarr ps) (- n 1))) (rid (mkRID id cnt h (wrap_i16 (- n 1)))))
      (= (issueIt r t h id c cnt ps n)
         (store (store (store (issueIt r t h id c cnt ps (- n 1))
            (KReq rid) (enc_CompactRequest (issuedReq r t h id c cnt p)))
            (KActB (RequestContext_ServiceName c) p (wrap_i64 (+ h (RequestContext_Timeout c))) rid) (idVal rid))
            (KActID rid) (idVal rid)))))
     :pattern ((issueIt r t h id c cnt ps n)))))

