; ---- bat theory: byte-wise view of the sequence algebra (used only by the layout lemmas of layer K, with "bytes")
(assert (forall ((a Bytes) (b Bytes) (i Int)) (! (=> (and (<= 0 i) (< i (+ (blen a) (blen b))))
   (= (bat (bconcat a b) i) (ite (< i (blen a)) (bat a i) (bat b (- i (blen a)))))) :pattern ((bat (bconcat a b) i)))))
(assert (forall ((x Int)) (! (= (bat (b1 x) 0) x) :pattern ((b1 x)))))
(assert (forall ((s Str) (i Int)) (! (= (bat (s2b s) i) (sat s i)) :pattern ((bat (s2b s) i)))))
; extensionality of non-empty byte strings, with an explicit difference witness
(declare-fun bdiff (Bytes Bytes) Int)
(assert (forall ((a Bytes) (b Bytes)) (! (=> (and (= (blen a) (blen b)) (> (blen a) 0) (not (= a b)))
   (and (<= 0 (bdiff a b)) (< (bdiff a b) (blen a)) (not (= (bat a (bdiff a b)) (bat b (bdiff a b)))))) :pattern ((blen a) (blen b)))))
; strings: equal bytes give equal strings (s2b is injective because b2s inverts it)
; service names and bech32 renderings contain no 0x00 byte
(define-fun noZero ((s Str)) Bool (forall ((i Int)) (! (=> (and (<= 0 i) (< i (strlen s))) (not (= (sat s i) 0))) :pattern ((sat s i)))))
(assert (forall ((a Bytes)) (! (noZero (bech32 a)) :pattern ((bech32 a)))))
; big-endian encodings are injective on their range
(assert (forall ((x Int) (y Int)) (! (=> (and (<= 0 x) (< x 18446744073709551616) (<= 0 y) (< y 18446744073709551616) (= (be64 x) (be64 y))) (= x y)) :pattern ((be64 x) (be64 y)))))
(assert (forall ((a Bytes) (b Bytes)) (! (=> (= (bech32 a) (bech32 b)) (= a b)) :pattern ((bech32 a) (bech32 b)))))
; parts of a concatenation, triggered by an existing byte term of the part
(assert (forall ((p Bytes) (a Bytes) (i Int)) (! (=> (and (<= 0 i) (< i (blen a))) (= (bat a i) (bat (bconcat p a) (+ (blen p) i)))) :pattern ((bconcat p a) (bat a i)))))
(assert (forall ((a Bytes) (q Bytes) (i Int)) (! (=> (and (<= 0 i) (< i (blen a))) (= (bat a i) (bat (bconcat a q) i))) :pattern ((bconcat a q) (bat a i)))))
