; ---- bat theory: byte-wise view of the sequence algebra (used only by the layout lemmas of layer K, with "bytes")
(assert (forall ((a Bytes) (b Bytes) (i Int)) (! (=> (and (<= 0 i) (< i (+ (blen a) (blen b))))
   (= (bat (bconcat a b) i) (ite (< i (blen a)) (bat a i) (bat b (- i (blen a)))))) :pattern ((bat (bconcat a b) i)))))
(assert (forall ((x Int)) (! (= (bat (b1 x) 0) x) :pattern ((b1 x)))))
(assert (forall ((s Str) (i Int)) (! (= (bat (s2b s) i) (sat s i)) :pattern ((bat (s2b s) i)))))
; extensionality of non-empty byte strings, with an explicit difference witness
(declare-fun bdiff (Bytes Bytes) Int)
(assert (forall ((a Bytes) (b Bytes)) (! (=> (and (= (blen a) (blen b)) (> (blen a) 0) (not (= a b)))
   (and (<= 0 (bdiff a b)) (< (bdiff a b) (blen a)) (not (= (bat a (bdiff a b)) (bat b (bdiff a b)))))) :pattern ((blen a) (blen b)))))
; strings: equal bytes give equal strings (s2b is injective because b2s inverts it)
; service names and bech32 renderings contain no 0x00 byte
(define-fun noZero ((s Str)) Bool (forall ((i Int)) (! (=> (and (<= 0 i) (< i (strlen s))) (not (= (sat s i) 0))) :pattern ((sat s i)))))
(assert (forall ((a Bytes)) (! (noZero (bech32 a)) :pattern ((bech32 a)))))
; big-endian encodings are injective on their range
(assert (forall ((x Int) (y Int)) (! (=> (and (<= 0 x) (< x 18446744073709551616) (<= 0 y) (< y 18446744073709551616) (= (be64 x) (be64 y))) (= x y)) :pattern ((be64 x) (be64 y)))))
; parts of a concatenation, triggered by an existing byte term of the part
(assert (forall ((p Bytes) (a Bytes) (i Int)) (! (=> (and (<= 0 i) (< i (blen a))) (= (bat a i) (bat (bconcat p a) (+ (blen p) i)))) :pattern ((bconcat p a) (bat a i)))))
(assert (forall ((a Bytes) (q Bytes) (i Int)) (! (=> (and (<= 0 i) (< i (blen a))) (= (bat a i) (bat (bconcat a q) i))) :pattern ((bconcat a q) (bat a i)))))
; byte buffers, slices and splices, byte-wise
(assert (forall ((n Int)) (! (=> (<= 0 n) (= (blen (bzeros n)) n)) :pattern ((bzeros n)))))
(assert (forall ((n Int) (i Int)) (! (= (bat (bzeros n) i) 0) :pattern ((bat (bzeros n) i)))))
(assert (forall ((c Bytes) (o Int) (x Bytes)) (! (= (blen (bsplice c o x)) (blen c)) :pattern ((bsplice c o x)))))
(assert (forall ((c Bytes) (o Int) (x Bytes) (i Int)) (! (= (bat (bsplice c o x) i) (ite (and (<= o i) (< i (+ o (blen x)))) (bat x (- i o)) (bat c i))) :pattern ((bat (bsplice c o x) i)))))
(assert (forall ((c Bytes) (o Int) (n Int) (i Int)) (! (=> (and (<= 0 i) (< i n)) (= (bat (bbuf c o n) i) (bat c (+ o i)))) :pattern ((bat (bbuf c o n) i)))))
(assert (forall ((b Bytes) (lo Int) (hi Int)) (! (=> (and (<= 0 lo) (<= lo hi) (<= hi (blen b))) (= (blen (bslice b lo hi)) (- hi lo))) :pattern ((bslice b lo hi)))))
(assert (forall ((b Bytes) (lo Int) (hi Int) (i Int)) (! (=> (and (<= 0 lo) (<= lo hi) (<= hi (blen b)) (<= 0 i) (< i (- hi lo))) (= (bat (bslice b lo hi) i) (bat b (+ lo i)))) :pattern ((bat (bslice b lo hi) i)))))
(assert (forall ((b Bytes)) (! (=> (> (blen b) 0) (= (bslice b 0 (blen b)) b)) :pattern ((bslice b 0 (blen b))))))
(assert (forall ((x Int)) (! (=> (and (<= 0 x) (< x 18446744073709551616)) (= (be64dec (be64 x)) x)) :pattern ((be64 x)))))
(assert (forall ((x Int)) (! (=> (and (<= 0 x) (< x 65536)) (= (be16dec (be16 x)) x)) :pattern ((be16 x)))))
