; ---- pricing theory: the discount selectors of property C07, written from the property statement.
; time promotion i is "in effect" at t iff start_i <= t < end_i
(define-fun inWindow ((p PromotionByTime) (t Int)) Bool (and (<= (PromotionByTime_StartTime p) t) (< t (PromotionByTime_EndTime p))))
; index of the first window containing t (or len if none): axiomatised by its characteristic property
(declare-fun firstWindow (Pricing Int) Int)
(assert (forall ((pr Pricing) (t Int)) (! (let ((k (firstWindow pr t)) (n (slen (Pricing_PromotionsByTime pr))))
   (=> (<= 0 n) (and (<= 0 k) (<= k n)
        (=> (< k n) (inWindow (select (sarr (Pricing_PromotionsByTime pr)) k) t)))))
   :pattern ((firstWindow pr t)))))
(assert (forall ((pr Pricing) (t Int) (j Int)) (! (=> (and (<= 0 j) (< j (firstWindow pr t))) (not (inWindow (select (sarr (Pricing_PromotionsByTime pr)) j) t)))
   :pattern ((firstWindow pr t) (select (sarr (Pricing_PromotionsByTime pr)) j)))))
(define-fun discountByTime ((pr Pricing) (t Int)) Int
  (ite (< (firstWindow pr t) (slen (Pricing_PromotionsByTime pr)))
       (PromotionByTime_Discount (select (sarr (Pricing_PromotionsByTime pr)) (firstWindow pr t)))
       decOne))

; volume promotion: firstAbove = least index whose threshold exceeds the volume (or len if none)
(declare-fun firstAbove (Pricing Int) Int)
(define-fun volAt ((pr Pricing) (j Int)) Int (PromotionByVolume_Volume (select (sarr (Pricing_PromotionsByVolume pr)) j)))
(assert (forall ((pr Pricing) (v Int)) (! (let ((k (firstAbove pr v)) (n (slen (Pricing_PromotionsByVolume pr))))
   (=> (<= 0 n) (and (<= 0 k) (<= k n) (=> (< k n) (< v (volAt pr k))))))
   :pattern ((firstAbove pr v)))))
(assert (forall ((pr Pricing) (v Int) (j Int)) (! (=> (and (<= 0 j) (< j (firstAbove pr v))) (<= (volAt pr j) v))
   :pattern ((firstAbove pr v) (select (sarr (Pricing_PromotionsByVolume pr)) j)))))
(define-fun discountByVolume ((pr Pricing) (v Int)) Int
  (ite (= (firstAbove pr v) 0) decOne
       (PromotionByVolume_Discount (select (sarr (Pricing_PromotionsByVolume pr)) (- (firstAbove pr v) 1)))))

; ValidatePricing: windows well-formed, ordered and disjoint; volume thresholds non-decreasing
(define-fun windowOK ((pr Pricing) (i Int)) Bool
  (let ((p (select (sarr (Pricing_PromotionsByTime pr)) i)))
    (and (> (PromotionByTime_EndTime p) (PromotionByTime_StartTime p))
         (=> (> i 0) (>= (PromotionByTime_StartTime p) (PromotionByTime_EndTime (select (sarr (Pricing_PromotionsByTime pr)) (- i 1))))))))
(define-fun volumeOK ((pr Pricing) (i Int)) Bool (=> (> i 0) (>= (volAt pr i) (volAt pr (- i 1)))))
(define-fun validPricing ((pr Pricing)) Bool
  (and (forall ((i Int)) (! (=> (and (<= 0 i) (< i (slen (Pricing_PromotionsByTime pr)))) (windowOK pr i)) :pattern ((select (sarr (Pricing_PromotionsByTime pr)) i))))
       (forall ((i Int)) (! (=> (and (<= 0 i) (< i (slen (Pricing_PromotionsByVolume pr)))) (volumeOK pr i)) :pattern ((select (sarr (Pricing_PromotionsByVolume pr)) i))))))
