; ---- pricing theory: the discount selectors of property C07, written from the property statement.
; time promotion i is "in effect" at t iff start_i <= t < end_i
(define-fun inWindow ((p PromotionByTime) (t Int)) Bool (and (<= (PromotionByTime_StartTime p) t) (< t (PromotionByTime_EndTime p))))
; index of the first window containing t (or len if none): axiomatised by its characteristic property
(declare-fun firstWindow (Pricing Int) Int)
(assert (forall ((pr Pricing) (t Int)) (! (let ((k (firstWindow pr t)) (n (slen (Pricing_PromotionsByTime pr))))
   (=> (<= 0 n) (and (<= 0 k) (<= k n)
        (=> (< k n) (inWindow (select (sarr (Pricing_PromotionsByTime pr)) k) t)))))
   :pattern ((firstWindow pr t)))))
(assert (forall ((pr Pricing) (t Int) (j Int)) (! (=> (and (<= 0 j) (< j (firstWindow pr t))) (not (inWindow (select (sarr (Pricing_PromotionsByTime pr)) j) t)))
   :pattern ((firstWindow pr t) (select (sarr (Pricing_PromotionsByTime pr)) j)))))
(define-fun discountByTime ((pr Pricing) (t Int)) Int
  (ite (< (firstWindow pr t) (slen (Pricing_PromotionsByTime pr)))
       (PromotionByTime_Discount (select (sarr (Pricing_PromotionsByTime pr)) (firstWindow pr t)))
       decOne))
