; ---- keys theory: the algebraic picture of store keys, prefixes and request ids (declarations only).
; Key is the algebraic picture of the byte keys built by types/keys.go; that the real builders produce
; kbytes(k) and that kbytes is injective (keyOf o kbytes = id) is layer K (theory "bytes", property C18).
(declare-datatypes ((Key 0)) ((
  (KDef (kdef_name Str))
  (KBind (kbind_svc Str) (kbind_prov Bytes))
  (KOwnerBind (kob_owner Bytes) (kob_svc Str) (kob_prov Bytes))
  (KOwner (kowner_prov Bytes))
  (KOwnerProv (kop_owner Bytes) (kop_prov Bytes))
  (KPricing (kpr_svc Str) (kpr_prov Bytes))
  (KWAddr (kwa_owner Bytes))
  (KCtx (kctx_id Bytes))
  (KExpQ (keq_h Int) (keq_id Bytes))
  (KNewQ (knq_h Int) (knq_id Bytes))
  (KExpH (keh_id Bytes))
  (KNewH (knh_id Bytes))
  (KReq (kreq_rid Bytes))
  (KActB (kab_svc Str) (kab_prov Bytes) (kab_h Int) (kab_rid Bytes))
  (KActID (kai_rid Bytes))
  (KResp (kresp_rid Bytes))
  (KVol (kvol_cons Bytes) (kvol_svc Str) (kvol_prov Bytes))
  (KEarned (kea_prov Bytes) (kea_denom Str))
  (KOwnerEarned (koe_owner Bytes))
  (KOther (kother Bytes)))))
(declare-datatypes ((Prefix 0)) ((
  (PAllDef) (PAllBind) (PBindSvc (pbs_svc Str)) (POwnerBind (pob_owner Bytes) (pob_svc Str)) (POwnerProv (pop_owner Bytes))
  (PAllWAddr) (PAllCtx) (PExpQ (peq_h Int)) (PNewQ (pnq_h Int)) (PAllReq) (PReqByCtx (prc_id Bytes) (prc_b Int))
  (PAllAct) (PActBind (pab_svc Str) (pab_prov Bytes)) (PActByCtx (pac_id Bytes) (pac_b Int))
  (PAllResp) (PRespByCtx (prr_id Bytes) (prr_b Int)) (PEarned (pea_prov Bytes)) (PAllEarned) (POwnerEarned (poe_owner Bytes))
  (POther (pother Bytes)))))
(declare-fun kbytes (Key) Bytes)
(declare-fun keyOf (Bytes) Key)
(declare-fun pbytes (Prefix) Bytes)
(declare-fun pfxOf (Bytes) Prefix)

; request ids: mkRID(ctx, batch, height, index) and its projections
(declare-fun mkRID (Bytes Int Int Int) Bytes)
(declare-fun ridCtx (Bytes) Bytes)
(declare-fun ridBatch (Bytes) Int)
(declare-fun ridHeight (Bytes) Int)
(declare-fun ridIndex (Bytes) Int)

(declare-fun bech32 (Bytes) Str)
; request-context ids: mkCtxID(txHash, msgIndex)
(declare-fun mkCtxID (Bytes Int) Bytes)
(declare-fun cidHash (Bytes) Bytes)
(declare-fun cidIndex (Bytes) Int)
(declare-fun bech32Err (Str) Err)
(declare-fun bech32Decode (Str) Bytes)
; an address rendered by AccAddress.String parses back (bech32 round trip of the SDK, for non-empty addresses)
(assert (forall ((a Bytes)) (! (=> (> (blen a) 0) (and (= (bech32Err (bech32 a)) NoErr) (= (bech32Decode (bech32 a)) a))) :pattern ((bech32 a)))))
; bech32 rendering is injective (distinct byte strings render differently)
(assert (forall ((a Bytes) (b Bytes)) (! (=> (= (bech32 a) (bech32 b)) (= a b)) :pattern ((bech32 a) (bech32 b)))))
; first byte (family tag) of a key
(define-fun tagOf ((k Key)) Int
  (ite (is-KDef k) 1 (ite (is-KBind k) 2 (ite (is-KOwnerBind k) 3 (ite (is-KOwner k) 4 (ite (is-KOwnerProv k) 5 (ite (is-KPricing k) 6 (ite (is-KWAddr k) 7
  (ite (is-KCtx k) 8 (ite (is-KExpQ k) 9 (ite (is-KNewQ k) 16 (ite (is-KExpH k) 17 (ite (is-KNewH k) 18 (ite (is-KReq k) 19 (ite (is-KActB k) 20
  (ite (is-KActID k) 21 (ite (is-KResp k) 22 (ite (is-KVol k) 23 (ite (is-KEarned k) 24 (ite (is-KOwnerEarned k) 25 0))))))))))))))))))))
