; ---- derived facts: inductive consequences of the unfolding axioms of 21_state. Each is proved by the lemma pair
; <name>_base / <name>_step in 60_lemmas.spec (base case and induction step, without this file loaded).
(assert (forall ((r (Array Key Bytes)) (p Bytes) (c (Slice Coin)) (n Int) (k Key)) (! (=> (and (>= n 0) (not (and (is-KEarned k) (= (kea_prov k) p))))
   (= (select (wrEarned r p c n) k) (select r k))) :pattern ((select (wrEarned r p c n) k)))))
(assert (forall ((r (Array Key Bytes)) (o Bytes) (c (Slice Coin)) (n Int) (k Key)) (! (=> (and (>= n 0) (not (= k (KOwnerEarned o))))
   (= (select (wrOwnerEarned r o c n) k) (select r k))) :pattern ((select (wrOwnerEarned r o c n) k)))))
(assert (forall ((r (Array Key Bytes)) (s (Array Key Bytes)) (p Prefix) (n Int) (k Key)) (! (=> (and (>= n 0) (not (is-KEarned k)))
   (= (select (clrProv r s p n) k) (select r k))) :pattern ((select (clrProv r s p n) k)))))
(assert (forall ((r (Array Key Bytes)) (p Bytes) (c (Slice Coin)) (n Int) (d Str)) (! (=> (>= n 0) (= (sumDep (wrEarned r p c n) d) (sumDep r d))) :pattern ((sumDep (wrEarned r p c n) d)))))
(assert (forall ((r (Array Key Bytes)) (o Bytes) (c (Slice Coin)) (n Int) (d Str)) (! (=> (>= n 0) (= (sumDep (wrOwnerEarned r o c n) d) (sumDep r d))) :pattern ((sumDep (wrOwnerEarned r o c n) d)))))
