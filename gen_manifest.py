#!/usr/bin/env python3
# regenerates MANIFEST.json from claims.json (per-property claim texts) -- keeps the manifest valid and consistent
import json,subprocess
props=[json.loads(l) for l in open('/verif/properties.jsonl')]
claims=json.load(open('/verif/claims.json'))
hooks=subprocess.run(['git','-C','/repo','log','--format=%h %s'],capture_output=True,text=True).stdout.strip().split('\n')
hook_commits=[l.split()[0] for l in hooks if 'verif hook' in l]
checks=[];na=[]
for p in props:
    pid=p['id']
    c=claims.get(pid)
    if c and c.get('claimed'):
        checks.append({
          "property_id":pid,
          "quick_cmd":f"/verif/check.sh {pid} quick",
          "thorough_cmd":f"/verif/check.sh {pid} thorough",
          "evidence_file":f"/verif/evidence/{pid}.json",
          "replay_cmd_template":"cat {path}",
          "engine":"govc",
          "level_claimed":{"category":c.get("category","proof"),"text":c["text"],"design_ref":c.get("design_ref","DESIGN.md section 4")},
          "level_note":c["note"],
          "technique":"contract-based deductive verification: VCs generated from go/ssa of the real functions against //@ contracts, discharged by z3/cvc5"})
    else:
        na.append({"property_id":pid,"reason":(c or {}).get("reason","check under construction (contracts for this property not yet written); not claimed")})
m={"version":1,
 "setup_cmd":"cd /verif/engine && GOFLAGS=-mod=mod GOPROXY=off GOSUMDB=off GOTOOLCHAIN=local go build -o /verif/bin/govc . && cd /repo && GOFLAGS=-mod=mod GOPROXY=off GOSUMDB=off GOTOOLCHAIN=local go build ./... && /verif/bin/govc list >/dev/null",
 "hooks":{"guard":"verif","enable":"contracts live in /repo/{.,keeper,types}/zz_contracts_verif.go (comment-only, //go:build verif); govc reads them directly; go build -tags verif ./... compiles them to nothing","baseline_off_cmd":"cd /repo && go test -mod=mod -vet=off -count=1 -timeout 25m ./...","source_commits":hook_commits,"add_only":True},
 "engines":[{"name":"govc","path":"/verif/engine","serves_properties":[c["property_id"] for c in checks],"kind_free_text":"contract-based deductive verifier for Go written for this task: loads /repo with go/packages, builds go/ssa, reads //@ contracts, generates weakest-precondition style VCs (passive form, loops cut at invariants, callees by contract), discharges each obligation with z3 5.1/z3 4.8/cvc5 1.0"}],
 "checks":checks,
 "not_applicable":na,
 "notes":"see DESIGN.md; known findings and repaired defects in /verif/known_findings.txt"}
json.dump(m,open('/verif/MANIFEST.json','w'),indent=1)
print(len(checks),'checks',len(na),'not claimed')
