#!/bin/bash
# usage: ingest_seed.sh <Sxx> <Cyy> <scratch dir> <demo pkg dir (. | keeper | types)>  -- copies an agent's deliverables into /verif/seeded and confirms them
set -e
S=$1; C=$2; D=$3; DIR=${4:-.}
T=/verif/seeded/$S-$C
mkdir -p $T
cp $D/out/patch.diff $T/patch.diff
cp $D/out/demo_test.go $T/demo_test.go.txt
cp $D/out/NOTE.md $T/NOTE.md 2>/dev/null || true
SUITE=1 /verif/try_seed.sh $T/patch.diff $T/demo_test.go.txt $DIR $C 2>&1 | tee $T/confirm.log
