#!/bin/bash
# usage: check.sh <property> [quick|thorough]   -- the registered entry point of every check
export GOFLAGS=-mod=mod GOPROXY=off GOSUMDB=off GOTOOLCHAIN=local
cd /verif
if [ ! -x /verif/bin/govc ] || [ -n "$(find /verif/engine -name '*.go' -newer /verif/bin/govc 2>/dev/null | head -1)" ]; then
  (cd /verif/engine && go build -o /verif/bin/govc .) || { echo "govc build failed"; exit 3; }
fi
TIER=${2:-${VERIF_TIER:-quick}}
exec /verif/bin/govc check -p "$1" -tier "$TIER"
