package main

import (
	"runtime"
	"sync/atomic"
	"encoding/json"
	"flag"
	"fmt"
	"os"
	"path/filepath"
	"regexp"
	"sort"
	"strconv"
	"strings"
	"sync"
	"time"
)

type oblOutcome struct {
	Func   *FuncResult
	Obl    *Obl
	Res    SolveResult
	Status string // discharged | failed | out-of-reach | vacuous | cover-ok
	Query  string
}

func hasProp(props []string, p string) bool {
	for _, x := range props {
		if x == p {
			return true
		}
	}
	return false
}

func contractMentions(c *Contract, prop string) bool {
	if hasProp(c.Props, prop) {
		return true
	}
	for _, cl := range c.Requires {
		if hasProp(cl.Props, prop) {
			return true
		}
	}
	for _, cl := range c.Ensures {
		if hasProp(cl.Props, prop) {
			return true
		}
	}
	for _, l := range c.Loops {
		for _, cl := range l.Invs {
			if hasProp(cl.Props, prop) {
				return true
			}
		}
	}
	return false
}

func main() {
	if len(os.Args) < 2 {
		fmt.Fprintln(os.Stderr, "usage: govc check|func|dump|list ...")
		os.Exit(2)
	}
	cmd := os.Args[1]
	fs := flag.NewFlagSet(cmd, flag.ExitOnError)
	repo := fs.String("repo", "/repo", "repository under verification")
	verif := fs.String("verif", "/verif", "verification directory")
	prop := fs.String("p", "", "property id")
	tier := fs.String("tier", os.Getenv("VERIF_TIER"), "quick|thorough")
	fname := fs.String("f", "", "function (short name substring) for func/dump")
	oname := fs.String("o", "", "obligation name substring for dump")
	timeout := fs.Int("timeout", 0, "per-solver timeout in seconds")
	workers := fs.Int("j", 0, "parallel obligations (0 = number of CPUs minus two, between 4 and 14)")
	verbose := fs.Bool("v", false, "verbose")
	fs.Parse(os.Args[2:])
	if *workers <= 0 {
		w := runtime.NumCPU() - 2
		if w < 4 {
			w = 4
		}
		if w > 14 {
			w = 14
		}
		*workers = w
	}
	if *tier == "" {
		*tier = "quick"
	}
	start := time.Now()
	p, err := loadProgram(*repo, *verif)
	if err != nil {
		fmt.Fprintln(os.Stderr, "govc: load failed:", err)
		// a tree that does not load cannot be verified: this is a broken check, not a violation
		os.Exit(3)
	}
	p.loadSeconds = time.Since(start).Seconds()
	to := *timeout
	if to == 0 {
		to = 20
		if *tier == "thorough" {
			to = 60
		}
	}
	if *tier == "thorough" && *workers > 5 {
		// the thorough tier races three solvers on every obligation: fewer obligations in parallel, so that none starves
		*workers = 5
	}
	switch cmd {
	case "annotate":
		// rewrite the mirror contract files with the current variable tables (run when contracts are written or revised)
		var files []string
		for _, sub := range []string{"root", "keeper", "types"} {
			files = append(files, filepath.Join(*verif, "contracts", sub+"_contracts_verif.go"))
		}
		if p.contractsSource != "mirror(/verif/contracts)" {
			fmt.Fprintln(os.Stderr, "annotate works on the mirror: set GOVC_CONTRACTS=mirror")
			os.Exit(2)
		}
		if err := p.annotate(files); err != nil {
			fmt.Fprintln(os.Stderr, err)
			os.Exit(2)
		}
		return
	case "list":
		for _, n := range sortedKeys(p.contracts) {
			c := p.contracts[n]
			fmt.Printf("%-70s props=%v\n", c.Short, c.Props)
		}
		for _, l := range p.lemmas {
			fmt.Printf("lemma %-64s props=%v\n", l.Short, l.Props)
		}
	case "func", "dump":
		var results []*FuncResult
		for _, n := range sortedKeys(p.contracts) {
			c := p.contracts[n]
			if strings.Contains(shortFuncName(p.funcs[c.Func]), *fname) {
				results = append(results, p.verifyFunc(c))
			}
		}
		for _, l := range p.lemmas {
			if strings.Contains("lemma."+l.Short, *fname) {
				results = append(results, p.verifyLemma(l))
			}
		}
		if len(results) == 0 {
			fmt.Fprintln(os.Stderr, "no function under contract matches", *fname)
			os.Exit(2)
		}
		if cmd == "dump" {
			for _, r := range results {
				for _, o := range r.Obls {
					if strings.Contains(o.Name, *oname) {
						fmt.Println(p.assembleQuery(r, o, true))
						return
					}
				}
			}
			fmt.Fprintln(os.Stderr, "no obligation matches", *oname)
			os.Exit(2)
		}
		sv := newSolver(filepath.Join(*verif, ".cache", "dev"), to, *tier == "thorough")
		outs := runObligations(p, sv, results, "", *workers)
		bad := 0
		oor := map[string]int{}
		for _, o := range outs {
			if o.Status == "out-of-reach" {
				oor[o.Func.Name]++
				bad++
				continue
			}
			mark := "ok  "
			if o.Status != "discharged" && o.Status != "cover-ok" {
				mark = "FAIL"
				bad++
			}
			fmt.Printf("%s %-90s %-12s %s %.2fs\n", mark, o.Obl.Name, o.Status, o.Res.Solver, o.Res.Seconds)
			if *verbose && mark == "FAIL" {
				fmt.Println("     src:", o.Obl.Src)
				fmt.Println("     out:", truncate(strings.ReplaceAll(o.Res.Output, "\n", " | "), 300))
			}
		}
		shown := 0
		for _, r := range results {
			if oor[r.Name] > 0 {
				shown++
				if shown > 3 {
					continue
				}
				fmt.Printf("FAIL %s: %d obligations out of reach\n", r.Name, oor[r.Name])
			}
			for i, u := range r.Unsupported {
				if i < 6 {
					fmt.Println("  UNSUPPORTED", r.Name, truncate(u, 300))
				}
			}
		}
		fmt.Printf("%d obligations, %d failed, %.1fs\n", len(outs), bad, time.Since(start).Seconds())
		if bad > 0 {
			os.Exit(1)
		}
	case "check":
		if *prop == "" {
			fmt.Fprintln(os.Stderr, "check needs -p <property>")
			os.Exit(2)
		}
		os.Exit(checkProperty(p, *prop, *tier, to, *workers, start))
	default:
		fmt.Fprintln(os.Stderr, "unknown command", cmd)
		os.Exit(2)
	}
}

var knownFailing = map[string]bool{}

func runObligations(p *Program, sv *Solver, results []*FuncResult, prop string, workers int) []*oblOutcome {
	var outs []*oblOutcome
	for _, r := range results {
		for _, o := range r.Obls {
			if prop != "" && !hasProp(o.Props, prop) {
				continue
			}
			outs = append(outs, &oblOutcome{Func: r, Obl: o})
		}
	}
	var wg sync.WaitGroup
	ch := make(chan *oblOutcome)
	// GOVC_FAIL_FAST=1 (self-test of seeded changes only): stop after the first violation; the remaining obligations are skipped
	failFast := os.Getenv("GOVC_FAIL_FAST") == "1"
	var stop int32
	for i := 0; i < workers; i++ {
		wg.Add(1)
		go func() {
			defer wg.Done()
			for oc := range ch {
				if failFast && atomic.LoadInt32(&stop) == 1 {
					oc.Status = "skipped"
					continue
				}
				if len(oc.Func.Unsupported) > 0 && !oc.Obl.Cover {
					if failFast {
						atomic.StoreInt32(&stop, 1)
					}
					oc.Status = "out-of-reach"
					oc.Res = SolveResult{Status: "unsupported", Output: strings.Join(oc.Func.Unsupported, "\n")}
					continue
				}
				if oc.Obl.Goal.S == "true" && !oc.Obl.Cover {
					oc.Status = "discharged"
					oc.Res = SolveResult{Status: "unsat", Solver: "syntactic"}
					continue
				}
				q := p.assembleQuery(oc.Func, oc.Obl, true)
				// listed known findings are expected to fail: give them a short budget
				oc.Res = sv.solve(oc.Obl.Name, q, oc.Obl.Cover || knownFailing[oc.Obl.Name])
				switch {
				case oc.Obl.Cover && oc.Res.Status == "unsat":
					oc.Status = "vacuous"
				case oc.Obl.Cover:
					oc.Status = "cover-ok"
				case oc.Res.Status == "unsat":
					oc.Status = "discharged"
				default:
					oc.Status = "failed"
				}
				if failFast && (oc.Status == "failed" || oc.Status == "vacuous") && !knownFailing[oc.Obl.Name] {
					atomic.StoreInt32(&stop, 1)
				}
			}
		}()
	}
	for _, oc := range outs {
		ch <- oc
	}
	close(ch)
	wg.Wait()
	return outs
}

type finding struct {
	kind, prop, obligation, text string
}

func readFindings(path string) []finding {
	b, err := os.ReadFile(path)
	if err != nil {
		return nil
	}
	var out []finding
	re := regexp.MustCompile(`^(finding|fixed):\s+property=(\S+)\s+(?:obligation=(\S+)\s+)?(.*)$`)
	for _, l := range strings.Split(string(b), "\n") {
		l = strings.TrimSpace(l)
		if m := re.FindStringSubmatch(l); m != nil {
			out = append(out, finding{m[1], m[2], m[3], m[4]})
		}
	}
	return out
}

func checkProperty(p *Program, prop, tier string, timeoutS, workers int, start time.Time) int {
	seed, _ := strconv.Atoi(os.Getenv("VERIF_SEED"))
	var results []*FuncResult
	funcsUnder := []string{}
	for _, n := range sortedKeys(p.contracts) {
		c := p.contracts[n]
		if contractMentions(c, prop) {
			r := p.verifyFunc(c)
			results = append(results, r)
			tag := ""
			if c.Trusted {
				tag = " (trusted: contract assumed)"
			}
			funcsUnder = append(funcsUnder, r.Name+tag)
		}
	}
	// lemmas tagged with the property, closed under the lemmas they use or apply
	inCone := map[string]bool{}
	for _, l := range p.lemmas {
		if contractMentions(l, prop) {
			inCone[l.Short] = true
		}
	}
	for changed := true; changed; {
		changed = false
		for _, l := range p.lemmas {
			if !inCone[l.Short] {
				continue
			}
			for _, u := range lemmaDeps(l) {
				if !inCone[u] {
					inCone[u] = true
					changed = true
				}
			}
		}
	}
	for _, l := range p.lemmas {
		if inCone[l.Short] {
			lr := p.verifyLemma(l)
			for _, o := range lr.Obls {
				if !hasProp(o.Props, prop) {
					o.Props = append(append([]string{}, o.Props...), prop)
				}
			}
			results = append(results, lr)
		}
	}
	if prop == "C20" {
		results = append(results, p.structObligations())
	} else if prop == "C05" || prop == "C17" || prop == "C11" || prop == "C19" || prop == "C04" || prop == "C02" {
		// the routing and module-wiring obligations also carry C05, C17, C11, C19
		sr := p.structObligations()
		var keep []*Obl
		for _, o := range sr.Obls {
			if hasProp(o.Props, prop) {
				keep = append(keep, o)
			}
		}
		sr.Obls = keep
		sr.Exec.obls = keep
		results = append(results, sr)
	}
	// cone: every callee contract used by a proof is itself verified as part of this property
	done := map[string]bool{}
	for _, r := range results {
		if r.Contract != nil && r.Contract.Kind == "func" {
			done[r.Contract.Func] = true
		}
	}
	for changed := true; changed; {
		changed = false
		for _, r := range results {
			for callee := range r.Exec.usedContracts {
				if done[callee] {
					continue
				}
				done[callee] = true
				changed = true
				c := p.contracts[callee]
				cr := p.verifyFunc(c)
				for _, o := range cr.Obls {
					if !hasProp(o.Props, prop) {
						o.Props = append(append([]string{}, o.Props...), prop)
					}
				}
				results = append(results, cr)
				tag := " (callee in the cone)"
				if c.Trusted {
					tag = " (trusted: contract assumed)"
				}
				funcsUnder = append(funcsUnder, cr.Name+tag)
			}
		}
	}
	// invariant closure: a proof in this cone assumes, at the entry of every function in it, the invariants that function lists as
	// "preserves". That assumption is only justified if EVERY operation re-establishes the invariant, so the "<label>_kept"
	// postcondition of every function that declares the invariant belongs to this property's cone as well (and, transitively, the
	// contracts those proofs use). Without it a change that breaks an invariant in one operation and the property in another
	// (S68, S93) is reported only by the check of the property the invariant was first written for.
	if os.Getenv("GOVC_NO_INV_CLOSURE") == "" {
		for changed := true; changed; {
			changed = false
			need := map[string]bool{} // invariant labels assumed at the entry of some function whose obligations count for prop
			for _, r := range results {
				if r.Contract == nil || r.Contract.Kind != "func" {
					continue
				}
				counts := false
				for _, o := range r.Obls {
					if hasProp(o.Props, prop) {
						counts = true
						break
					}
				}
				if !counts {
					continue
				}
				kept := map[string]bool{}
				for _, e := range r.Contract.Ensures {
					if strings.HasSuffix(e.Label, "_kept") {
						kept[strings.TrimSuffix(e.Label, "_kept")] = true
					}
				}
				for _, rq := range r.Contract.Requires {
					if kept[rq.Label] {
						need[rq.Label] = true
					}
				}
			}
			have := map[string]*FuncResult{}
			for _, r := range results {
				if r.Contract != nil && r.Contract.Kind == "func" {
					have[r.Contract.Func] = r
				}
			}
			for _, n := range sortedKeys(p.contracts) {
				c := p.contracts[n]
				if c.Kind != "func" || c.Trusted {
					continue
				}
				var labels []string
				for _, e := range c.Ensures {
					if strings.HasSuffix(e.Label, "_kept") && need[strings.TrimSuffix(e.Label, "_kept")] {
						labels = append(labels, e.Label)
					}
				}
				if len(labels) == 0 {
					continue
				}
				r := have[c.Func]
				if r == nil {
					r = p.verifyFunc(c)
					results = append(results, r)
					have[c.Func] = r
					done[c.Func] = true
					funcsUnder = append(funcsUnder, r.Name+" (preserves an invariant this property's proofs assume)")
					changed = true
				}
				for _, o := range r.Obls {
					if hasProp(o.Props, prop) {
						continue
					}
					for _, l := range labels {
						if strings.HasSuffix(o.Name, "#post:"+l) {
							o.Props = append(append([]string{}, o.Props...), prop)
							changed = true
						}
					}
				}
			}
			// stateless validation: a handler in the cone assumes (a2_validated) what the ValidateBasic method of its message
			// establishes; that method's contract (and, through the callee rule, the validators it calls) joins the cone
			for _, r := range results {
				if r.Contract == nil || r.Contract.Kind != "func" || !strings.HasPrefix(r.Contract.Short, "handleMsg") {
					continue
				}
				vb := "(" + modPath + "/types." + strings.TrimPrefix(r.Contract.Short, "handle") + ").ValidateBasic"
				c, ok := p.contracts[vb]
				if !ok || done[vb] {
					continue
				}
				done[vb] = true
				changed = true
				cr := p.verifyFunc(c)
				for _, o := range cr.Obls {
					if !hasProp(o.Props, prop) {
						o.Props = append(append([]string{}, o.Props...), prop)
					}
				}
				results = append(results, cr)
				funcsUnder = append(funcsUnder, cr.Name+" (establishes the a2_validated precondition of a handler in the cone)")
			}
			// contracts used by the newly added proofs join the cone like any other callee
			for _, r := range results {
				for callee := range r.Exec.usedContracts {
					if done[callee] {
						continue
					}
					done[callee] = true
					changed = true
					c := p.contracts[callee]
					cr := p.verifyFunc(c)
					for _, o := range cr.Obls {
						if !hasProp(o.Props, prop) {
							o.Props = append(append([]string{}, o.Props...), prop)
						}
					}
					results = append(results, cr)
					funcsUnder = append(funcsUnder, cr.Name+" (callee in the cone)")
				}
			}
		}
	}
	// supporting obligations: a postcondition that counts for this property is proved from the function's loop invariants, from
	// the preconditions of its callees and under the modelling obligations of its body (unmarshal targets hold the zero value,
	// slice and arithmetic safety). When only some clauses of a function are tagged with the property (clause tags, invariant
	// closure), those supporting obligations count for it as well: otherwise a change that breaks the model of the body
	// (S131: a decode target reused across iterations inside an inlined callee) leaves the counted postcondition "proved" from
	// a body the engine has itself declared undecided.
	if os.Getenv("GOVC_NO_SUPPORT_CLOSURE") == "" {
		for _, r := range results {
			if r.Contract == nil || r.Contract.Kind != "func" {
				continue
			}
			counts := false
			for _, o := range r.Obls {
				if hasProp(o.Props, prop) {
					counts = true
					break
				}
			}
			if !counts {
				continue
			}
			for _, o := range r.Obls {
				if hasProp(o.Props, prop) || strings.Contains(o.Name, "#post:") {
					continue
				}
				o.Props = append(append([]string{}, o.Props...), prop)
			}
		}
	}
	runDir := filepath.Join(p.verif, ".cache", "run-"+prop)
	os.RemoveAll(runDir)
	sv := newSolver(runDir, timeoutS, tier == "thorough")
	sv.retry = true
	if tier != "thorough" && os.Getenv("GOVC_CACHE") == "1" {
		sv.useCache = true
		sv.cacheDir = filepath.Join(p.verif, ".cache", "results")
	}
	findings := readFindings(filepath.Join(p.verif, "known_findings.txt"))
	for _, f := range findings {
		if f.kind == "finding" {
			knownFailing[f.obligation] = true
		}
	}
	outs := runObligations(p, sv, results, prop, workers)
	replayDir := filepath.Join(p.verif, "replays", prop)
	os.RemoveAll(replayDir)
	nObl, nDis, nCover, nVac := 0, 0, 0, 0
	nTwo := 0 // discharged obligations on which a second, different solver returned the same verdict (thorough tier)
	var violations, known []string
	oorSeen := map[string]bool{}
	var samples []map[string]interface{}
	type slow struct {
		name string
		s    float64
	}
	var slows []slow
	trusted := map[string]bool{}
	callees := map[string]bool{}
	for _, r := range results {
		for t := range r.Exec.trusted {
			trusted[t] = true
		}
		for c := range r.Exec.usedContracts {
			callees[c] = true
		}
	}
	// assumptions stated in the theories in use ("; ASSUME <id>: text" lines) and preconditions of the entry points
	// (handlers, EndBlocker, genesis): nothing inside the module establishes those, so they are assumptions on the caller
	for _, r := range results {
		for _, th := range r.Theories {
			for _, l := range strings.Split(p.theories[th], "\n") {
				l = strings.TrimSpace(l)
				if strings.HasPrefix(l, "; ASSUME ") {
					trusted["theory "+th+": "+strings.TrimPrefix(l, "; ASSUME ")] = true
				}
			}
		}
		if r.Contract != nil && r.Contract.Kind == "func" && isEntryPoint(r.Contract.Short) {
			for _, rq := range r.Contract.Requires {
				inv := ""
				for _, e := range r.Contract.Ensures {
					if e.Label == rq.Label+"_kept" {
						inv = " [invariant: re-established by this function on success]"
					}
				}
				trusted["entry precondition of "+r.Contract.Short+": "+rq.Label+" ("+truncate(rq.Src, 140)+")"+inv] = true
			}
		}
	}
	for _, oc := range outs {
		if oc.Status == "skipped" {
			continue
		}
		if oc.Obl.Cover {
			nCover++
			if oc.Status == "vacuous" {
				nVac++
				violations = append(violations, reportFailure(p, prop, replayDir, oc, "vacuity guard failed: precondition or path condition unsatisfiable"))
			}
			continue
		}
		nObl++
		slows = append(slows, slow{oc.Obl.Name, oc.Res.Seconds})
		if oc.Status == "discharged" {
			nDis++
			if oc.Res.Second != "" {
				nTwo++
			}
			if len(samples) < 4 {
				samples = append(samples, map[string]interface{}{"obligation": oc.Obl.Name, "kind": oc.Obl.Kind, "clause": oc.Obl.Src, "goal_smt": truncate(oc.Obl.Goal.S, 400), "solver": oc.Res.Solver, "seconds": oc.Res.Seconds, "at": p.posString(oc.Obl.Pos)})
			}
			continue
		}
		if oc.Status == "out-of-reach" {
			if oorSeen[oc.Func.Name] {
				continue
			}
			oorSeen[oc.Func.Name] = true
			violations = append(violations, reportFailure(p, prop, replayDir, oc, "function "+oc.Func.Name+" is out of the verifier's reach on this tree: "+truncate(oc.Res.Output, 600)+" (all its obligations are undecided)"))
			continue
		}
		isKnown := false
		for _, f := range findings {
			// a listed finding names one obligation; the same obligation may sit in the cone of several properties
			if f.kind == "finding" && f.obligation == oc.Obl.Name {
				known = append(known, fmt.Sprintf("KNOWN-FINDING: property=%s obligation=%s %s", prop, oc.Obl.Name, f.text))
				isKnown = true
			}
		}
		if isKnown {
			continue
		}
		violations = append(violations, reportFailure(p, prop, replayDir, oc, ""))
	}
	if nObl == 0 {
		violations = append(violations, fmt.Sprintf("VIOLATION property=%s replay=%s no obligations generated (broken check) no-failing-input-found", prop, replayDir))
	}
	sort.Slice(slows, func(i, j int) bool { return slows[i].s > slows[j].s })
	var slowest []string
	for i := 0; i < len(slows) && i < 3; i++ {
		slowest = append(slowest, fmt.Sprintf("%s %.2fs", slows[i].name, slows[i].s))
	}
	for _, k := range known {
		fmt.Println(k)
	}
	for _, v := range violations {
		fmt.Println(v)
	}
	wall := time.Since(start).Seconds()
	level := "proof"
	ev := map[string]interface{}{
		"property_id": prop,
		"tier":        tier,
		"seed":        seed,
		"level":       level,
		"wall_s":      wall,
		"violations":  len(violations),
		"coverage": map[string]interface{}{
			"obligations":              nObl - len(known),
			"discharged":               nDis,
			"obligations_failing_as_known_findings": len(known),
			"discharged_confirmed_by_a_second_solver": nTwo,
			"checker_cmd":              fmt.Sprintf("/verif/bin/govc check -p %s -tier %s (VCs from go/ssa of /repo working tree; solvers z3-new 5.1.0, z3 4.8.12, cvc5 1.0.3; timeout %ds)", prop, tier, timeoutS),
			"trusted_base":             sortedKeys(trusted),
			"functions_under_contract": funcsUnder,
			"callee_contracts_used":    sortedKeys(callees),
			"by_backend":               sv.byBackend,
			"solver_time_s":            sv.totalSec,
			"slowest":                  slowest,
			"vacuity":                  map[string]int{"cover_checks": nCover, "vacuous": nVac},
			"known_findings":           known,
			"contracts_source":         p.contractsSource,
			"samples":                  samples,
			"integers":                 "int64/uint64/uint32/int16/uint16 arithmetic: exact wrap-around; int (lengths, indices): mathematical; sdk.Int/sdk.Dec: unbounded mathematical integers (Dec scaled by 10^18)",
			"load_s":                   p.loadSeconds,
		},
		"assumptions": sortedKeys(trusted),
	}
	// evidence describes /repo itself; a run against a scratch copy (selftest, seeded changes) must not overwrite it
	evDir := filepath.Join(p.verif, "evidence")
	if filepath.Clean(p.repo) != "/repo" {
		evDir = filepath.Join(p.verif, ".cache", "evidence-scratch")
	}
	os.MkdirAll(evDir, 0o755)
	b, _ := json.MarshalIndent(ev, "", " ")
	os.WriteFile(filepath.Join(evDir, prop+".json"), b, 0o644)
	fmt.Printf("govc: property %s tier %s: %d obligations, %d discharged, %d known findings, %d violations, %d cover checks, %.1fs\n", prop, tier, nObl, nDis, len(known), len(violations), nCover, wall)
	if len(violations) > 0 {
		return 1
	}
	return 0
}

func reportFailure(p *Program, prop, replayDir string, oc *oblOutcome, note string) string {
	os.MkdirAll(replayDir, 0o755)
	file := filepath.Join(replayDir, sanitize(oc.Obl.Name)+".json")
	var ro *replayOutcome
	if oc.Status == "failed" {
		ro = tryReplay(p, oc, replayDir)
		if ro == nil {
			ro = tryReplayGeneric(p, oc, replayDir)
		}
	}
	rec := map[string]interface{}{
		"property":      prop,
		"obligation":    oc.Obl.Name,
		"kind":          oc.Obl.Kind,
		"clause":        oc.Obl.Src,
		"at":            p.posString(oc.Obl.Pos),
		"status":        oc.Status,
		"solver":        oc.Res.Solver,
		"solver_status": oc.Res.Status,
		"solver_output": truncate(oc.Res.Output, 8000),
		"note":          note,
		"replayed":      ro != nil && ro.Replayed,
		"replay":        ro,
	}
	b, _ := json.MarshalIndent(rec, "", " ")
	os.WriteFile(file, b, 0o644)
	if ro != nil && ro.Replayed {
		return fmt.Sprintf("VIOLATION property=%s replay=%s obligation=%s status=%s replayed-on-real-code", prop, file, oc.Obl.Name, oc.Status)
	}
	return fmt.Sprintf("VIOLATION property=%s replay=%s obligation=%s status=%s no-failing-input-found", prop, file, oc.Obl.Name, oc.Status)
}

// lemmaDeps lists the lemmas a lemma takes as hypotheses (uses) or instantiates (apply).
func lemmaDeps(l *Contract) []string {
	out := append([]string{}, l.Uses...)
	for _, a := range l.Applies {
		if call, ok := a.E.(*ECall); ok {
			out = append(out, call.Fn)
		}
	}
	return out
}

// isEntryPoint: functions called by the SDK (router, end blocker, genesis), whose preconditions no caller in the module proves.
func isEntryPoint(short string) bool {
	return strings.HasPrefix(short, "handleMsg") || short == "EndBlocker" || short == "PrepForZeroHeightGenesis" ||
		short == "InitGenesis" || short == "ExportGenesis"
}
