package main

import (
	"go/constant"
	"fmt"
	"go/ast"
	"go/token"
	"go/types"
	"os"
	"path/filepath"
	"sort"
	"strconv"
	"strings"

	"golang.org/x/tools/go/packages"
	"golang.org/x/tools/go/ssa"
	"golang.org/x/tools/go/ssa/ssautil"
)

const modPath = "github.com/irismod/service"

// Program bundles everything loaded for a run.
type Program struct {
	repo      string
	verif     string
	fset      *token.FileSet
	pkgs      []*packages.Package
	ssaProg   *ssa.Program
	ssaPkgs   map[string]*ssa.Package
	funcs     map[string]*ssa.Function // full name -> function (incl. closures, methods)
	contracts map[string]*Contract     // in-repo function contracts by full name
	libs      map[string]*Contract     // library specs by full name
	lemmas    []*Contract
	sig       *Sig
	sorts     *Sorts
	theories  map[string]string // theory name -> SMT text
	theoryOrder []string
	globals   map[string]Term   // package-level variable -> constant
	globalAx  []string          // axioms from literal initialisers (bytes theory)
	strConsts []string // (define-fun k_<pkg>_<Name> () Str <literal>) for the string constants of the module (usable in contracts)
	paramValidators map[string]string // Params field -> validator function registered for it in ParamSetPairs
	paramValidateCalls map[string]string // Params field -> validate* function (Params).Validate applies to it
	paramKeys map[string]string // package-level key variable -> Params field it is registered for in (*Params).ParamSetPairs (read from the syntax every run)
	contractsSource string
	loadSeconds float64
}

func loadProgram(repo, verif string) (*Program, error) {
	p := &Program{repo: repo, verif: verif, ssaPkgs: map[string]*ssa.Package{}, funcs: map[string]*ssa.Function{},
		contracts: map[string]*Contract{}, libs: map[string]*Contract{}, theories: map[string]string{}, globals: map[string]Term{}}
	cfg := &packages.Config{
		Mode: packages.LoadSyntax,
		Dir:  repo,
		Env:  append(os.Environ(), "GOFLAGS=-mod=mod", "GOPROXY=off", "GOSUMDB=off", "GOTOOLCHAIN=local"),
	}
	pkgs, err := packages.Load(cfg, modPath, modPath+"/keeper", modPath+"/types")
	if err != nil {
		return nil, err
	}
	for _, pk := range pkgs {
		if len(pk.Errors) > 0 {
			return nil, fmt.Errorf("package %s: %v", pk.PkgPath, pk.Errors[0])
		}
	}
	p.pkgs = pkgs
	prog, spkgs := ssautil.Packages(pkgs, ssa.InstantiateGenerics|ssa.GlobalDebug)
	for i, sp := range spkgs {
		if sp == nil {
			return nil, fmt.Errorf("no SSA for %s", pkgs[i].PkgPath)
		}
		sp.Build()
		p.ssaPkgs[sp.Pkg.Path()] = sp
	}
	p.ssaProg = prog
	p.fset = prog.Fset
	for fn := range ssautil.AllFunctions(prog) {
		if fn.Pkg == nil {
			continue
		}
		if _, ok := p.ssaPkgs[fn.Pkg.Pkg.Path()]; !ok {
			continue
		}
		p.funcs[fn.String()] = fn
	}
	// signature table + prelude
	p.sig = newSig()
	p.sorts = newSorts(p.sig)
	specDir := filepath.Join(verif, "spec")
	ents, err := os.ReadDir(specDir)
	if err != nil {
		return nil, err
	}
	var names []string
	for _, e := range ents {
		names = append(names, e.Name())
	}
	sort.Strings(names)
	for _, n := range names {
		full := filepath.Join(specDir, n)
		switch {
		case strings.HasSuffix(n, ".smt2"):
			b, err := os.ReadFile(full)
			if err != nil {
				return nil, err
			}
			th := strings.TrimSuffix(n, ".smt2")
			if i := strings.Index(th, "_"); i >= 0 && i <= 2 {
				th = th[i+1:]
			}
			p.theories[th] = string(b)
			p.theoryOrder = append(p.theoryOrder, th)
		}
	}
	// the core theory is declared first; generated struct sorts come next; other theories may mention them
	if err := p.sig.addDecls(p.theories["core"]); err != nil {
		return nil, fmt.Errorf("core prelude: %v", err)
	}
	p.genTypes()
	for _, th := range p.theoryOrder {
		if th == "core" {
			continue
		}
		if err := p.sig.addDecls(p.theories[th]); err != nil {
			return nil, fmt.Errorf("theory %s: %v", th, err)
		}
	}
	p.scanGlobals()
	p.scanParamPairs()
	// contracts: /repo/<pkg>/zz_contracts_verif.go, or the mirror in /verif/contracts
	src := os.Getenv("GOVC_CONTRACTS")
	for _, sub := range []string{"", "keeper", "types"} {
		pkgPath := modPath
		if sub != "" {
			pkgPath += "/" + sub
		}
		repoFile := filepath.Join(repo, sub, "zz_contracts_verif.go")
		mirror := filepath.Join(verif, "contracts", subName(sub)+"_contracts_verif.go")
		use := repoFile
		if src == "mirror" {
			use = mirror
		} else if _, err := os.Stat(repoFile); err != nil {
			use = mirror
		}
		if _, err := os.Stat(use); err != nil {
			continue
		}
		if use == mirror {
			p.contractsSource = "mirror(/verif/contracts)"
		} else if p.contractsSource == "" {
			p.contractsSource = "repo(zz_contracts_verif.go)"
		}
		cs, err := parseContractFile(use, pkgPath)
		if err != nil {
			return nil, err
		}
		for _, c := range cs {
			if c.Kind != "func" {
				return nil, fmt.Errorf("%s:%d: only func blocks allowed in contract files", c.File, c.Line)
			}
			if _, ok := p.funcs[c.Func]; !ok {
				return nil, fmt.Errorf("%s:%d: contract for unknown function %s", c.File, c.Line, c.Func)
			}
			if _, dup := p.contracts[c.Func]; dup {
				return nil, fmt.Errorf("%s:%d: duplicate contract for %s", c.File, c.Line, c.Func)
			}
			p.contracts[c.Func] = c
		}
	}
	for _, c := range p.contracts {
		p.computeRenames(c)
	}
	// library specs and lemmas
	for _, n := range names {
		full := filepath.Join(specDir, n)
		if !strings.HasSuffix(n, ".spec") {
			continue
		}
		cs, err := parseContractFile(full, "")
		if err != nil {
			return nil, err
		}
		for _, c := range cs {
			switch c.Kind {
			case "lib":
				if _, dup := p.libs[c.Func]; dup {
					return nil, fmt.Errorf("%s:%d: duplicate lib spec %s", c.File, c.Line, c.Func)
				}
				p.libs[c.Func] = c
			case "lemma":
				p.lemmas = append(p.lemmas, c)
			default:
				return nil, fmt.Errorf("%s:%d: func blocks belong in contract files", c.File, c.Line)
			}
		}
	}
	return p, nil
}

func subName(sub string) string {
	if sub == "" {
		return "root"
	}
	return sub
}

func sortedKeys[V any](m map[string]V) []string {
	var ks []string
	for k := range m {
		ks = append(ks, k)
	}
	sort.Strings(ks)
	return ks
}

// genTypes declares datatypes for all struct types of the module's types package (and those they mention).
func (p *Program) genTypes() {
	for _, path := range []string{modPath + "/types"} {
		sp := p.ssaPkgs[path]
		if sp == nil {
			continue
		}
		scope := sp.Pkg.Scope()
		for _, n := range scope.Names() {
			if tn, ok := scope.Lookup(n).(*types.TypeName); ok {
				p.sorts.sortOf(tn.Type())
			}
		}
	}
	// gogo wrapper types used as stored values
	for _, pk := range p.pkgs {
		for _, imp := range pk.Imports {
			if imp.PkgPath == "github.com/gogo/protobuf/types" && imp.Types != nil {
				for _, n := range []string{"BytesValue", "Int64Value", "UInt64Value"} {
					if o := imp.Types.Scope().Lookup(n); o != nil {
						p.sorts.sortOf(o.Type())
					}
				}
			}
		}
	}
}

// scanGlobals records package-level variables: byte-slice literals get axioms, error variables distinct codes.
func (p *Program) scanGlobals() {
	errN := 0
	for _, pk := range p.pkgs {
		if !strings.HasPrefix(pk.PkgPath, modPath) {
			continue
		}
		short := shortTypeName("x." + pk.Name)
		for _, f := range pk.Syntax {
			for _, d := range f.Decls {
				gd, ok := d.(*ast.GenDecl)
				if ok && gd.Tok == token.CONST {
					// string constants of the module: k_<pkg>_<Name> names the literal (so a contract can say "returns the pricing schema")
					for _, s := range gd.Specs {
						vs := s.(*ast.ValueSpec)
						for _, nm := range vs.Names {
							c, isC := pk.TypesInfo.Defs[nm].(*types.Const)
							if !isC || c.Val().Kind() != constant.String {
								continue
							}
							kn := "k_" + short + "_" + nm.Name
							if _, dup := p.sig.Funs[kn]; dup {
								continue
							}
							p.sig.Funs[kn] = &FunSig{Ret: "Str"}
							p.strConsts = append(p.strConsts, fmt.Sprintf("(define-fun %s () Str %s)", kn, p.sorts.strLit(constant.StringVal(c.Val()))))
						}
					}
					continue
				}
				if !ok || gd.Tok != token.VAR {
					continue
				}
				for _, s := range gd.Specs {
					vs := s.(*ast.ValueSpec)
					for i, nm := range vs.Names {
						obj := pk.TypesInfo.Defs[nm]
						if obj == nil || nm.Name == "_" {
							continue
						}
						full := pk.PkgPath + "." + nm.Name
						so := p.sorts.sortOf(obj.Type())
						cname := "g_" + short + "_" + nm.Name
						if so == "Err" {
							errN++
							p.globals[full] = Term{fmt.Sprintf("(SomeErr %d)", errN), "Err"}
							continue
						}
						p.globals[full] = Term{cname, so}
						p.sig.Funs[cname] = &FunSig{Ret: so}
						p.sorts.decls = append(p.sorts.decls, fmt.Sprintf("(declare-const %s %s)", cname, so))
						if so == "Bytes" && i < len(vs.Values) {
							if cl, ok := vs.Values[i].(*ast.CompositeLit); ok {
								var bs []string
								okAll := true
								for _, e := range cl.Elts {
									bl, ok := e.(*ast.BasicLit)
									if !ok {
										okAll = false
										break
									}
									v, err := strconv.ParseUint(bl.Value, 0, 8)
									if err != nil {
										okAll = false
										break
									}
									bs = append(bs, strconv.FormatUint(v, 10))
								}
								if okAll && len(bs) == 1 {
									p.globalAx = append(p.globalAx, fmt.Sprintf("(assert (= %s (b1 %s)))", cname, bs[0]))
								}
							}
						}
					}
				}
			}
		}
	}
}

// posString renders a source position relative to the repo.
func (p *Program) posString(pos token.Pos) string {
	if !pos.IsValid() {
		return "?"
	}
	ps := p.fset.Position(pos)
	rel, err := filepath.Rel(p.repo, ps.Filename)
	if err != nil {
		rel = ps.Filename
	}
	return fmt.Sprintf("%s:%d", rel, ps.Line)
}

// scanParamPairs reads the wiring of the parameter store from the syntax of (*Params).ParamSetPairs in package types:
// every NewParamSetPair(<key variable>, &p.<Field>, <validator>) registers the key for that field. The parameter getters
// of the keeper read the subspace by key; their contracts ("returns params.<Field>") are checked against this table.
func (p *Program) scanParamPairs() {
	p.paramKeys = map[string]string{}
	p.paramValidators = map[string]string{}
	p.paramValidateCalls = map[string]string{}
	for _, pk := range p.pkgs {
		if pk.PkgPath != modPath+"/types" {
			continue
		}
		for _, f := range pk.Syntax {
			for _, d := range f.Decls {
				fd, ok := d.(*ast.FuncDecl)
				if ok && fd.Name.Name == "Validate" && fd.Body != nil && fd.Recv != nil && len(fd.Recv.List) == 1 {
					if id, isId := fd.Recv.List[0].Type.(*ast.Ident); isId && id.Name == "Params" {
						// (p Params) Validate: every call validateX(p.Field)
						ast.Inspect(fd.Body, func(n ast.Node) bool {
							call, ok := n.(*ast.CallExpr)
							if !ok || len(call.Args) != 1 {
								return true
							}
							fn, ok := call.Fun.(*ast.Ident)
							sel, ok2 := call.Args[0].(*ast.SelectorExpr)
							if ok && ok2 && strings.HasPrefix(fn.Name, "validate") {
								p.paramValidateCalls[sel.Sel.Name] = fn.Name
							}
							return true
						})
					}
				}
				if !ok || fd.Name.Name != "ParamSetPairs" || fd.Body == nil {
					continue
				}
				ast.Inspect(fd.Body, func(n ast.Node) bool {
					call, ok := n.(*ast.CallExpr)
					if !ok || len(call.Args) != 3 {
						return true
					}
					sel, ok := call.Fun.(*ast.SelectorExpr)
					if !ok || sel.Sel.Name != "NewParamSetPair" {
						return true
					}
					key, ok := call.Args[0].(*ast.Ident)
					if !ok {
						return true
					}
					un, ok := call.Args[1].(*ast.UnaryExpr)
					if !ok || un.Op != token.AND {
						return true
					}
					fs, ok := un.X.(*ast.SelectorExpr)
					if !ok {
						return true
					}
					p.paramKeys[pk.PkgPath+"."+key.Name] = fs.Sel.Name
					if v, ok := call.Args[2].(*ast.Ident); ok {
						p.paramValidators[fs.Sel.Name] = v.Name
					}
					return true
				})
			}
		}
	}
}
