package main

import (
	"fmt"
	"go/constant"
	"go/token"
	"go/types"
	"strings"

	"golang.org/x/tools/go/ssa"
)

// value returns the symbolic value of an SSA value.
func (fr *Frame) value(v ssa.Value) Val {
	if x, ok := fr.vals[v]; ok {
		return x
	}
	ex := fr.ex
	switch c := v.(type) {
	case *ssa.Const:
		return fr.constVal(c)
	case *ssa.Global:
		gs := ""
		if pt, ok := c.Type().Underlying().(*types.Pointer); ok {
			gs = ex.P.sorts.sortOf(pt.Elem())
		}
		return &Ptr{glob: c.Pkg.Pkg.Path() + "." + c.Name(), globSort: gs}
	case *ssa.Function:
		return &FuncVal{fn: c}
	case *ssa.Builtin:
		return &unknownVal{"builtin value"}
	}
	ex.unsup(v.Pos(), "use of undefined SSA value %s (%T) in %s", v.Name(), v, fr.fn.Name())
	return ex.fresh("undef", ex.P.sorts.sortOf(v.Type()))
}

func (fr *Frame) constVal(c *ssa.Const) Val {
	so := fr.ex.P.sorts
	t := c.Type()
	if c.Value == nil {
		// nil or zero value
		if _, ok := t.Underlying().(*types.Pointer); ok {
			return Term{"nilptr", "Nil"}
		}
		s := so.sortOf(t)
		if s == "Nil" {
			return Term{"nil", "Nil"}
		}
		if _, ok := t.Underlying().(*types.Signature); ok {
			return Term{"nilfunc", "Nil"}
		}
		return Term{so.zeroOf(s), s}
	}
	switch c.Value.Kind() {
	case constant.Bool:
		if constant.BoolVal(c.Value) {
			return tTrue
		}
		return tFalse
	case constant.Int:
		s := c.Value.ExactString()
		if strings.HasPrefix(s, "-") {
			return Term{"(- " + s[1:] + ")", "Int"}
		}
		return Term{s, "Int"}
	case constant.String:
		return Term{so.strLit(constant.StringVal(c.Value)), "Str"}
	}
	fr.ex.unsup(c.Pos(), "constant of kind %v", c.Value.Kind())
	return fr.ex.fresh("const", so.sortOf(t))
}

// term coerces a value to an SMT term of the expected sort.
func (fr *Frame) term(v Val, want string, pos token.Pos) Term {
	switch x := v.(type) {
	case Term:
		if x.Sort == "Nil" {
			if want == "" || want == "Nil" {
				return x
			}
			return Term{fr.ex.P.sorts.zeroOf(want), want}
		}
		return x
	case *Boxed:
		if t, ok := x.val.(Term); ok && (want == "" || t.Sort == want) {
			return t
		}
		if p, ok := x.val.(*Ptr); ok {
			lv := fr.loadPtr(p, nil, pos)
			if t, ok := lv.(Term); ok {
				return t
			}
		}
	case *Ptr:
		// pointer to struct used as a value (e.g. *Msg): its pointee
		if x.cell != nil || x.slice != nil {
			if t, ok := fr.loadPtr(x, nil, pos).(Term); ok {
				return t
			}
		}
	case *unknownVal:
		fr.ex.unsup(pos, "unknown value used: %s", x.why)
	}
	if want == "" {
		want = fr.ex.P.sorts.declareOpaque("Opaque_val")
	}
	if _, isU := v.(*unknownVal); !isU {
		if _, isF := v.(*FuncVal); !isF {
			if _, isI := v.(*IterVal); !isI {
				fr.ex.unsup(pos, "cannot use %T as term of sort %s", v, want)
			}
		}
	}
	return fr.ex.fresh("opaque", want)
}

// ---------------------------------------------------------------- memory

func (bs *blockState) cellTerm(c *Cell, pos token.Pos) Term {
	v, ok := bs.st.cells[c]
	if !ok {
		bs.fr.ex.unsup(pos, "read of unallocated cell %s", c.name)
		return bs.fr.ex.fresh("cell_"+c.name, c.sort)
	}
	t, ok := v.(Term)
	if !ok {
		if u, isU := v.(*unknownVal); isU {
			bs.fr.ex.unsup(pos, "read of cell %s with unknown content: %s", c.name, u.why)
		}
		return bs.fr.ex.fresh("cell_"+c.name, c.sort)
	}
	return t
}

// matBytes materializes a byte buffer reference against the current state.
func (bs *blockState) matBytes(b *BytesRef, pos token.Pos) Term {
	content := bs.cellTerm(b.cell, pos)
	return Term{fmt.Sprintf("(bbuf %s %s %s)", content.S, b.off.S, b.len.S), "Bytes"}
}

// tm coerces to a term in the current block state (handles BytesRef).
func (bs *blockState) tm(v Val, want string, pos token.Pos) Term {
	if b, ok := v.(*BytesRef); ok {
		return bs.matBytes(b, pos)
	}
	if mr, ok := v.(*MapRef); ok {
		return bs.cellTerm(mr.cell, pos)
	}
	if sr, ok := v.(*SliceRef); ok {
		return bs.cellTerm(sr.cell, pos)
	}
	if p, ok := v.(*Ptr); ok {
		if t, ok := bs.load(p, pos).(Term); ok {
			return t
		}
	}
	if bx, ok := v.(*Boxed); ok {
		return bs.tm(bx.val, want, pos)
	}
	return bs.fr.term(v, want, pos)
}

func (fr *Frame) loadPtr(p *Ptr, st *St, pos token.Pos) Val {
	if st == nil {
		return &unknownVal{"load without state"}
	}
	bs := &blockState{fr: fr, st: st}
	return bs.load(p, pos)
}

func (bs *blockState) load(p *Ptr, pos token.Pos) Val {
	ex := bs.fr.ex
	if p.glob != "" {
		if t, ok := ex.P.globals[p.glob]; ok {
			return t
		}
		return ex.P.globalValue(ex, p.glob, p.globSort, pos)
	}
	if p.slice != nil {
		t, err := indexTerm(*p.slice, p.idx)
		if err != nil {
			ex.unsup(pos, "%v", err)
			return ex.fresh("elem", "Int")
		}
		return t
	}
	if p.bref != nil {
		content := bs.cellTerm(p.bref.cell, pos)
		return Term{fmt.Sprintf("(bat %s (+ %s %s))", content.S, p.bref.off.S, p.idx.S), "Int"}
	}
	v, ok := bs.st.cells[p.cell]
	if !ok {
		ex.unsup(pos, "load from unallocated cell %s", p.cell.name)
		return ex.fresh("load", p.cell.sort)
	}
	if len(p.path) == 0 {
		return v
	}
	t, ok := v.(Term)
	if !ok {
		ex.unsup(pos, "field load from non-term cell %s", p.cell.name)
		return ex.fresh("load", "Int")
	}
	for _, pe := range p.path {
		t = bs.fr.selectPath(t, pe, pos)
	}
	return t
}

func (fr *Frame) selectPath(t Term, pe PathElem, pos token.Pos) Term {
	ex := fr.ex
	if pe.field >= 0 {
		si, ok := ex.P.sig.Structs[t.Sort]
		if ok {
			f := si.Fields[pe.field]
			return Term{selOf(si, pe.field, t.S), f.Sort}
		}
		ex.unsup(pos, "field access on sort %s", t.Sort)
		return ex.fresh("fld", "Int")
	}
	r, err := indexTerm(t, pe.idx)
	if err != nil {
		ex.unsup(pos, "%v", err)
		return ex.fresh("idx", "Int")
	}
	return r
}

// updatePath returns t with the element at path replaced by v.
func (fr *Frame) updatePath(t Term, path []PathElem, v Term, pos token.Pos) Term {
	ex := fr.ex
	if len(path) == 0 {
		return v
	}
	pe := path[0]
	if pe.field >= 0 {
		si, ok := ex.P.sig.Structs[t.Sort]
		if !ok {
			ex.unsup(pos, "field store on sort %s", t.Sort)
			return t
		}
		parts := make([]string, len(si.Fields))
		for i, f := range si.Fields {
			cur := Term{selOf(si, i, t.S), f.Sort}
			if i == pe.field {
				cur = fr.updatePath(cur, path[1:], v, pos)
			}
			parts[i] = cur.S
		}
		return Term{"(" + si.Ctor + " " + strings.Join(parts, " ") + ")", t.Sort}
	}
	h, args := sortParts(t.Sort)
	if h == "Array" {
		cur := Term{"(select " + t.S + " " + pe.idx.S + ")", args[1]}
		nv := fr.updatePath(cur, path[1:], v, pos)
		return Term{"(store " + t.S + " " + pe.idx.S + " " + nv.S + ")", t.Sort}
	}
	if h == "Slice" {
		cur := Term{"(select (sarr " + t.S + ") " + pe.idx.S + ")", args[0]}
		nv := fr.updatePath(cur, path[1:], v, pos)
		return Term{"(mkSlice (slen " + t.S + ") (store (sarr " + t.S + ") " + pe.idx.S + " " + nv.S + "))", t.Sort}
	}
	ex.unsup(pos, "indexed store on sort %s", t.Sort)
	return t
}

func (bs *blockState) store(p *Ptr, v Val, pos token.Pos) {
	ex := bs.fr.ex
	if p.glob != "" {
		ex.unsup(pos, "store to package-level variable %s", p.glob)
		return
	}
	if p.slice != nil {
		ex.unsup(pos, "store through an element of a slice value (aliasing not modelled)")
		return
	}
	if p.cell != nil && p.cell.ro {
		ex.unsup(pos, "store through a read-only view (%s) of a value: the original would have to change (aliasing not modelled)", p.cell.name)
		return
	}
	if p.bref != nil {
		content := bs.cellTerm(p.bref.cell, pos)
		vt := bs.tm(v, "Int", pos)
		bs.st.cells[p.bref.cell] = ex.define("buf", Term{fmt.Sprintf("(bupd %s (+ %s %s) %s)", content.S, p.bref.off.S, p.idx.S, vt.S), "Bytes"})
		return
	}
	if len(p.path) == 0 {
		switch x := v.(type) {
		case Term:
			if x.Sort == "Nil" {
				x = Term{ex.P.sorts.zeroOf(p.cell.sort), p.cell.sort}
			}
			bs.st.cells[p.cell] = x
		case *BytesRef:
			bs.st.cells[p.cell] = x
		default:
			bs.st.cells[p.cell] = v
		}
		return
	}
	cur, ok := bs.st.cells[p.cell].(Term)
	if !ok {
		ex.unsup(pos, "field store into non-term cell %s", p.cell.name)
		return
	}
	// expected sort at the path
	want := bs.fr.pathSort(cur.Sort, p.path)
	var vt Term
	if isOpaqueSort(want) {
		// interface / function / map valued slots: contents are not modelled
		if t, ok := v.(Term); ok && t.Sort == want {
			vt = t
		} else if mr, ok := v.(*MapRef); ok && mr.cell.sort == want {
			vt = bs.cellTerm(mr.cell, pos)
		} else {
			vt = ex.fresh("boxed", want)
		}
	} else {
		vt = bs.tm(v, want, pos)
	}
	nt := bs.fr.updatePath(cur, p.path, vt, pos)
	bs.st.cells[p.cell] = ex.define("c_"+p.cell.name, nt)
}

func (fr *Frame) pathSort(s string, path []PathElem) string {
	for _, pe := range path {
		if pe.field >= 0 {
			si, ok := fr.ex.P.sig.Structs[s]
			if !ok {
				return ""
			}
			s = si.Fields[pe.field].Sort
		} else {
			h, args := sortParts(s)
			if h == "Array" {
				s = args[1]
			} else if h == "Slice" {
				s = args[0]
			} else {
				return ""
			}
		}
	}
	return s
}

// fieldIndex maps a Go struct field index to the datatype field index (XXX_ fields are dropped).
func (fr *Frame) fieldIndex(st *types.Struct, i int, sortName string) (int, bool) {
	si, ok := fr.ex.P.sig.Structs[sortName]
	if !ok {
		return -1, false
	}
	name := st.Field(i).Name()
	for k, f := range si.Fields {
		if f.Name == name {
			return k, true
		}
	}
	return -1, false
}

// ---------------------------------------------------------------- instructions

func (bs *blockState) exec(ins ssa.Instruction) {
	fr := bs.fr
	ex := fr.ex
	so := ex.P.sorts
	pos := ins.Pos()
	switch x := ins.(type) {
	case *ssa.DebugRef:
		if id, ok := x.Expr.(interface{ String() string }); ok && !x.IsAddr {
			_ = id
		}
		if x.IsAddr {
			return
		}
		if name := debugName(x); name != "" {
			fr.names[name] = fr.value(x.X)
		}
	case *ssa.Alloc:
		elem := x.Type().Underlying().(*types.Pointer).Elem()
		name := x.Comment
		if name == "" {
			name = x.Name()
		}
		// byte arrays are mutable byte buffers
		if arr, ok := elem.Underlying().(*types.Array); ok {
			if b, ok := arr.Elem().Underlying().(*types.Basic); ok && b.Kind() == types.Uint8 {
				c := ex.newCell(name, "Bytes")
				bs.st.cells[c] = Term{fmt.Sprintf("(bzeros %d)", arr.Len()), "Bytes"}
				fr.vals[x] = &Ptr{cell: c}
				return
			}
		}
		s := so.sortOf(elem)
		c := ex.newCell(name, s)
		switch elem.Underlying().(type) {
		case *types.Signature, *types.Interface, *types.Map, *types.Pointer:
			if s != "Err" {
				bs.st.cells[c] = Term{"nil", "Nil"}
			} else {
				bs.st.cells[c] = Term{"NoErr", "Err"}
			}
		default:
			bs.st.cells[c] = Term{so.zeroOf(s), s}
		}
		fr.vals[x] = &Ptr{cell: c}
		if x.Comment != "" {
			fr.cellNames[x.Comment] = c
		}
	case *ssa.FieldAddr:
		base := fr.value(x.X)
		p, ok := base.(*Ptr)
		if !ok {
			if t, isT := base.(Term); isT {
				if _, isStruct := ex.P.sig.Structs[t.Sort]; isStruct {
					// pointer-to-struct value modelled by its pointee: read-only view
					c := ex.newCell("deref", t.Sort)
					c.ro = true
					bs.st.cells[c] = t
					p, ok = &Ptr{cell: c}, true
				}
			}
		}
		if !ok {
			ex.unsup(pos, "FieldAddr on %T", base)
			fr.vals[x] = &unknownVal{"fieldaddr"}
			return
		}
		st := x.X.Type().Underlying().(*types.Pointer).Elem().Underlying().(*types.Struct)
		fr.vals[x] = bs.fieldPtr(p, st, x.Field, so.sortOf(x.X.Type().Underlying().(*types.Pointer).Elem()), pos)
	case *ssa.Field:
		base := bs.tm(fr.value(x.X), "", pos)
		st := x.X.Type().Underlying().(*types.Struct)
		fr.vals[x] = bs.fieldOf(base, st, x.Field, pos)
	case *ssa.IndexAddr:
		base := fr.value(x.X)
		idx := bs.tm(fr.value(x.Index), "Int", pos)
		switch b := base.(type) {
		case *Ptr: // pointer to array
			if b.cell != nil && b.cell.sort == "Bytes" && len(b.path) == 0 {
				n := x.X.Type().Underlying().(*types.Pointer).Elem().Underlying().(*types.Array).Len()
				bs.safe("index", and(Term{"(<= 0 " + idx.S + ")", "Bool"}, Term{fmt.Sprintf("(< %s %d)", idx.S, n), "Bool"}), pos)
				fr.vals[x] = &Ptr{bref: &BytesRef{cell: b.cell, off: intLit(0), len: intLit(n)}, idx: idx}
				return
			}
			if arr, ok := x.X.Type().Underlying().(*types.Pointer).Elem().Underlying().(*types.Array); ok {
				bs.safe("index", and(Term{"(<= 0 " + idx.S + ")", "Bool"}, Term{fmt.Sprintf("(< %s %d)", idx.S, arr.Len()), "Bool"}), pos)
			}
			np := &Ptr{cell: b.cell, path: append(append([]PathElem{}, b.path...), PathElem{field: -1, idx: idx}), glob: b.glob}
			fr.vals[x] = np
		case *BytesRef:
			bs.safe("index", and(Term{"(<= 0 " + idx.S + ")", "Bool"}, Term{"(< " + idx.S + " " + b.len.S + ")", "Bool"}), pos)
			fr.vals[x] = &Ptr{bref: b, idx: idx}
		case *SliceRef:
			cur := bs.cellTerm(b.cell, pos)
			bs.safe("index", and(Term{"(<= 0 " + idx.S + ")", "Bool"}, Term{"(< " + idx.S + " (slen " + cur.S + "))", "Bool"}), pos)
			fr.vals[x] = &Ptr{cell: b.cell, path: []PathElem{{field: -1, idx: idx}}}
		default:
			t := bs.tm(base, "", pos)
			l, err := lenTerm(t)
			if err == nil {
				bs.safe("index", and(Term{"(<= 0 " + idx.S + ")", "Bool"}, Term{"(< " + idx.S + " " + l.S + ")", "Bool"}), pos)
			}
			fr.vals[x] = &Ptr{slice: &t, idx: idx}
		}
	case *ssa.Index:
		base := bs.tm(fr.value(x.X), "", pos)
		idx := bs.tm(fr.value(x.Index), "Int", pos)
		if base.Sort == "Str" {
			bs.safe("index", and(Term{"(<= 0 " + idx.S + ")", "Bool"}, Term{"(< " + idx.S + " (strlen " + base.S + "))", "Bool"}), pos)
			fr.vals[x] = Term{"(sat " + base.S + " " + idx.S + ")", "Int"}
			return
		}
		t, err := indexTerm(base, idx)
		if err != nil {
			ex.unsup(pos, "%v", err)
			t = ex.fresh("idx", so.sortOf(x.Type()))
		}
		fr.vals[x] = t
	case *ssa.UnOp:
		bs.unop(x)
	case *ssa.Store:
		addr := fr.value(x.Addr)
		p, ok := addr.(*Ptr)
		if !ok {
			ex.unsup(pos, "store through %T", addr)
			return
		}
		bs.store(p, fr.value(x.Val), pos)
	case *ssa.BinOp:
		fr.vals[x] = bs.binop(x)
	case *ssa.Convert:
		fr.vals[x] = bs.convert(x)
	case *ssa.ChangeType:
		v := fr.value(x.X)
		if t, ok := v.(Term); ok {
			want := so.sortOf(x.Type())
			if t.Sort != want && t.Sort != "Nil" {
				ex.unsup(pos, "changetype between sorts %s and %s", t.Sort, want)
			}
		}
		fr.vals[x] = v
	case *ssa.ChangeInterface:
		fr.vals[x] = fr.value(x.X)
	case *ssa.MakeInterface:
		v := fr.value(x.X)
		if t, ok := v.(Term); ok && t.Sort == "Err" {
			fr.vals[x] = t
			return
		}
		fr.vals[x] = &Boxed{typ: x.X.Type(), val: v}
	case *ssa.TypeAssert:
		bs.typeAssert(x)
	case *ssa.Extract:
		tv := fr.value(x.Tuple)
		if tp, ok := tv.(*Tuple); ok && x.Index < len(tp.vals) {
			fr.vals[x] = tp.vals[x.Index]
		} else {
			ex.unsup(pos, "extract from %T", tv)
			fr.vals[x] = ex.fresh("extract", so.sortOf(x.Type()))
		}
	case *ssa.Slice:
		bs.sliceOp(x)
	case *ssa.MakeSlice:
		n := bs.tm(fr.value(x.Len), "Int", pos)
		s := so.sortOf(x.Type())
		bs.safe("makeslice", Term{"(<= 0 " + n.S + ")", "Bool"}, pos)
		if s == "Bytes" {
			c := ex.newCell("buf", "Bytes")
			bs.st.cells[c] = Term{"(bzeros " + n.S + ")", "Bytes"}
			fr.vals[x] = &BytesRef{cell: c, off: intLit(0), len: n}
			return
		}
		_, args := sortParts(s)
		c := ex.newCell("slice", s)
		bs.st.cells[c] = Term{fmt.Sprintf("(mkSlice %s %s)", n.S, so.zeroArr(args[0])), s}
		if ex.sliceCells == nil {
			ex.sliceCells = map[*Cell]bool{}
		}
		ex.sliceCells[c] = true
		fr.vals[x] = &SliceRef{cell: c}
	case *ssa.MakeMap:
		ms := so.sortOf(x.Type())
		c := ex.newCell("map", ms)
		bs.st.cells[c] = Term{"mapEmpty_" + ms, ms}
		fr.vals[x] = &MapRef{cell: c}
	case *ssa.MapUpdate:
		// maps created here are tracked (empty + insertions); a map received from elsewhere is an immutable value and an update of it is not modelled
		if mr, ok := fr.value(x.Map).(*MapRef); ok {
			mt := x.Map.Type().Underlying().(*types.Map)
			m := bs.cellTerm(mr.cell, pos)
			k := bs.tm(fr.value(x.Key), so.sortOf(mt.Key()), pos)
			v := bs.tm(fr.value(x.Value), so.sortOf(mt.Elem()), pos)
			if k.Sort == so.sortOf(mt.Key()) && v.Sort == so.sortOf(mt.Elem()) {
				bs.st.cells[mr.cell] = ex.define("map", Term{"(mapPut_" + m.Sort + " " + m.S + " " + k.S + " " + v.S + ")", m.Sort})
			} else {
				ex.unsup(pos, "map update with key sort %s / value sort %s", k.Sort, v.Sort)
				bs.st.cells[mr.cell] = ex.fresh("map", m.Sort)
			}
		} else if _, isTerm := fr.value(x.Map).(Term); !isTerm {
			ex.unsup(pos, "update of a map of unknown origin")
		}
	case *ssa.Lookup:
		if mt, ok := x.X.Type().Underlying().(*types.Map); ok {
			var m Term
			switch mv := fr.value(x.X).(type) {
			case *MapRef:
				m = bs.cellTerm(mv.cell, pos)
			case Term:
				m = mv
			}
			ks, es := so.sortOf(mt.Key()), so.sortOf(mt.Elem())
			if m.Sort == so.sortOf(x.X.Type()) && m.S != "" {
				k := bs.tm(fr.value(x.Index), ks, pos)
				if k.Sort == ks {
					has, get := ex.P.mapFuncs(m.Sort, ks, es)
					hasT := Term{"(" + has + " " + m.S + " " + k.S + ")", "Bool"}
					getT := Term{"(" + get + " " + m.S + " " + k.S + ")", es}
					// a missing key reads as the zero value; where the engine has no zero term for the element sort the value is arbitrary
					var val Val = getT
					if z := so.zeroOf(es); z != "" && !strings.HasPrefix(z, "zero_Opaque") {
						val = ite(hasT, getT, Term{z, es})
					} else {
						fz := ex.fresh("lookup_missing", es)
						val = ite(hasT, getT, fz)
					}
					if x.CommaOk {
						fr.vals[x] = &Tuple{[]Val{val, hasT}}
					} else {
						fr.vals[x] = val
					}
					return
				}
			}
		}
		if x.CommaOk {
			fr.vals[x] = &Tuple{[]Val{bs.freshOf(x.Type().(*types.Tuple).At(0).Type(), "lookup", pos), ex.fresh("ok", "Bool")}}
		} else {
			fr.vals[x] = bs.freshOf(x.Type(), "lookup", pos)
		}
	case *ssa.Range:
		// map iteration: arbitrary order, every key exactly once (ghost set of visited keys)
		if mt, ok := x.X.Type().Underlying().(*types.Map); ok {
			m := bs.tm(fr.value(x.X), "", pos)
			ks := so.sortOf(mt.Key())
			c := ex.newCell("rangevisited", "(Array "+ks+" Bool)")
			bs.st.cells[c] = ex.fresh("visited0", "(Array "+ks+" Bool)")
			ex.emit("(assert (forall ((k %s)) (! (not (select %s k)) :pattern ((select %s k)))))", ks, bs.st.cells[c].(Term).S, bs.st.cells[c].(Term).S)
			rv := &RangeVal{m: m, visited: c, keySort: ks, elemSort: so.sortOf(mt.Elem())}
			fr.vals[x] = rv
			fr.names["range_map"] = m
			fr.cellNames["range_visited"] = c
			return
		}
		fr.vals[x] = &unknownVal{"range iterator"}
	case *ssa.Next:
		tt := x.Type().(*types.Tuple)
		if rv, ok := fr.value(x.Iter).(*RangeVal); ok {
			okT := ex.fresh("rng_ok", "Bool")
			k := ex.fresh("rng_k", rv.keySort)
			var v Val = ex.fresh("rng_v", rv.elemSort)
			if r := ex.P.rangeFact(v.(Term), tt.At(2).Type()); r.S != "true" {
				ex.emit("(assert %s)", r.S)
			}
			vis := bs.cellTerm(rv.visited, pos)
			has, get := ex.P.mapFuncs(rv.m.Sort, rv.keySort, rv.elemSort)
			ex.assume(bs.reach, implies(okT, and(Term{"(" + has + " " + rv.m.S + " " + k.S + ")", "Bool"}, not(Term{"(select " + vis.S + " " + k.S + ")", "Bool"}),
				eq(v.(Term), Term{"(" + get + " " + rv.m.S + " " + k.S + ")", rv.elemSort}))))
			ex.assume(bs.reach, implies(not(okT), Term{fmt.Sprintf("(forall ((k %s)) (! (=> (%s %s k) (select %s k)) :pattern ((%s %s k))))", rv.keySort, has, rv.m.S, vis.S, has, rv.m.S), "Bool"}))
			bs.st.cells[rv.visited] = ex.define("visited", ite(okT, Term{"(store " + vis.S + " " + k.S + " true)", vis.Sort}, vis))
			fr.vals[x] = &Tuple{[]Val{okT, k, v}}
			return
		}
		fr.vals[x] = &Tuple{[]Val{ex.fresh("rng_ok", "Bool"), bs.freshOf(tt.At(1).Type(), "rng_k", pos), bs.freshOf(tt.At(2).Type(), "rng_v", pos)}}
	case *ssa.MakeClosure:
		fv := &FuncVal{fn: x.Fn.(*ssa.Function)}
		for _, b := range x.Bindings {
			fv.bindings = append(fv.bindings, fr.value(b))
		}
		fr.vals[x] = fv
	case *ssa.Call:
		fr.vals[x] = bs.call(x, x.Common())
	case *ssa.Defer:
		cc := x.Common()
		if cc.IsInvoke() && cc.Method.Name() == "Close" {
			return
		}
		ex.unsup(pos, "defer of %s", cc.String())
	case *ssa.RunDefers:
	case *ssa.Panic:
		ex.panics = append(ex.panics, panicRec{cond: bs.reach, desc: "explicit panic", prefix: len(ex.lines), pos: pos})
		bs.done = true
	case *ssa.Return:
		var vs []Val
		for _, r := range x.Results {
			vs = append(vs, fr.value(r))
		}
		// byte buffers escape as values; returned pointers to local structs are modelled by their pointee
		for i, v := range vs {
			if b, ok := v.(*BytesRef); ok {
				vs[i] = ex.define("ret", bs.matBytes(b, pos))
			}
			if p, ok := v.(*Ptr); ok && p.cell != nil && len(p.path) == 0 {
				if pt, ok := x.Results[i].Type().Underlying().(*types.Pointer); ok {
					if _, isStruct := pt.Elem().Underlying().(*types.Struct); isStruct {
						if t, ok := bs.load(p, pos).(Term); ok {
							vs[i] = t
						}
					}
				}
			}
		}
		bs.rets = append(bs.rets, retRec{cond: bs.reach, vals: vs, st: bs.st})
		bs.done = true
	case *ssa.If:
		c := bs.tm(fr.value(x.Cond), "Bool", pos)
		c = ex.define("c", c)
		bs.out = append(bs.out, outEdge{bs.b.Succs[0], ex.define("e", and(bs.reach, c))}, outEdge{bs.b.Succs[1], ex.define("e", and(bs.reach, not(c)))})
		bs.done = true
	case *ssa.Jump:
		bs.out = append(bs.out, outEdge{bs.b.Succs[0], bs.reach})
		bs.done = true
	default:
		ex.unsup(pos, "unsupported instruction %T (%s)", ins, ins.String())
		if v, ok := ins.(ssa.Value); ok {
			fr.vals[v] = &unknownVal{fmt.Sprintf("unsupported %T", ins)}
		}
	}
}

func debugName(x *ssa.DebugRef) string {
	type namer interface{ String() string }
	if id, ok := x.Expr.(interface{ End() token.Pos }); ok {
		_ = id
	}
	if obj := x.Object(); obj != nil {
		if v, ok := obj.(*types.Var); ok && !v.IsField() && v.Pkg() != nil && v.Parent() != v.Pkg().Scope() {
			return obj.Name()
		}
	}
	return ""
}

func (bs *blockState) freshOf(t types.Type, hint string, pos token.Pos) Val {
	ex := bs.fr.ex
	switch t.Underlying().(type) {
	case *types.Signature:
		return &unknownVal{"function value from a map or interface"}
	}
	s := ex.P.sorts.sortOf(t)
	f := ex.fresh(hint, s)
	if r := ex.P.rangeFact(f, t); r.S != "true" {
		ex.emit("(assert %s)", r.S)
	}
	return f
}

// safe records a safety obligation (run-time panic otherwise).
func (bs *blockState) safe(kind string, cond Term, pos token.Pos) {
	ex := bs.fr.ex
	if cond.S == "true" {
		return
	}
	ex.ncall["safe:"+kind]++
	name := fmt.Sprintf("%s#safe:%s@%d", bs.fr.oblPrefix(), kind, ex.ncall["safe:"+kind])
	props := []string(nil)
	if ex.topC != nil {
		props = ex.topC.Props
	}
	ex.oblige(name, "safe", implies(bs.reach, cond), props, pos, kind)
	// after the check the condition holds on this path
	ex.assume(bs.reach, cond)
}

func (bs *blockState) fieldPtr(p *Ptr, st *types.Struct, field int, sortName string, pos token.Pos) Val {
	fr := bs.fr
	ex := fr.ex
	if p.glob != "" {
		ex.unsup(pos, "field of package-level variable %s", p.glob)
		return &unknownVal{"global field"}
	}
	if si, ok := ex.P.sig.Structs[sortName]; ok {
		_ = si
		k, ok := fr.fieldIndex(st, field, sortName)
		if !ok {
			ex.unsup(pos, "field %s of %s is not modelled", st.Field(field).Name(), sortName)
			return &unknownVal{"unmodelled field"}
		}
		if p.slice != nil {
			// field of an element of a slice value (read-only)
			base, err := indexTerm(*p.slice, p.idx)
			if err != nil {
				ex.unsup(pos, "%v", err)
				return &unknownVal{"slice elem"}
			}
			f := si.Fields[k]
			holder := Term{selOf(si, k, base.S), f.Sort}
			c := ex.newCell("ro_"+f.Name, f.Sort)
			c.ro = true
			bs.st.cells[c] = holder
			return &Ptr{cell: c}
		}
		return &Ptr{cell: p.cell, path: append(append([]PathElem{}, p.path...), PathElem{field: k})}
	}
	// opaque struct: field read through an accessor function
	cur := bs.load(p, pos)
	ct, ok := cur.(Term)
	if !ok {
		ex.unsup(pos, "field of non-term opaque value")
		return &unknownVal{"opaque field"}
	}
	f := st.Field(field)
	acc := "fld_" + sanitize(sortName) + "_" + f.Name()
	switch f.Type().Underlying().(type) {
	case *types.Map, *types.Signature:
	}
	fs := ex.P.sorts.sortOf(f.Type())
	if _, ok := ex.P.sig.Funs[acc]; !ok {
		ex.P.sig.Funs[acc] = &FunSig{Args: []string{sortName}, Ret: fs}
		ex.P.sorts.decls = append(ex.P.sorts.decls, fmt.Sprintf("(declare-fun %s (%s) %s)", acc, sortName, fs))
	}
	c := ex.newCell("ro_"+f.Name(), fs) // field of an opaque struct: content not modelled, reads go through an accessor
	bs.st.cells[c] = Term{"(" + acc + " " + ct.S + ")", fs}
	return &Ptr{cell: c}
}

func (bs *blockState) fieldOf(base Term, st *types.Struct, field int, pos token.Pos) Val {
	ex := bs.fr.ex
	if si, ok := ex.P.sig.Structs[base.Sort]; ok {
		k, ok := bs.fr.fieldIndex(st, field, base.Sort)
		if ok {
			f := si.Fields[k]
			return Term{selOf(si, k, base.S), f.Sort}
		}
	}
	if isOpaqueSort(base.Sort) || base.Sort == "Header" {
		f := st.Field(field)
		acc := "fld_" + sanitize(base.Sort) + "_" + f.Name()
		fs := ex.P.sorts.sortOf(f.Type())
		if _, ok := ex.P.sig.Funs[acc]; !ok {
			ex.P.sig.Funs[acc] = &FunSig{Args: []string{base.Sort}, Ret: fs}
			ex.P.sorts.decls = append(ex.P.sorts.decls, fmt.Sprintf("(declare-fun %s (%s) %s)", acc, base.Sort, fs))
		}
		return Term{"(" + acc + " " + base.S + ")", fs}
	}
	ex.unsup(pos, "field %d of sort %s", field, base.Sort)
	return ex.fresh("fld", ex.P.sorts.sortOf(st.Field(field).Type()))
}

func (bs *blockState) unop(x *ssa.UnOp) {
	fr := bs.fr
	ex := fr.ex
	pos := x.Pos()
	switch x.Op {
	case token.MUL:
		addr := fr.value(x.X)
		p, ok := addr.(*Ptr)
		if !ok {
			if t, isT := addr.(Term); isT && t.Sort != "Nil" {
				// pointer-to-struct value modelled by its pointee
				fr.vals[x] = t
				return
			}
			ex.unsup(pos, "load through %T", addr)
			fr.vals[x] = bs.freshOf(x.Type(), "load", pos)
			return
		}
		v := bs.load(p, pos)
		if t, ok := v.(Term); ok && t.Sort == "Nil" {
			want := ex.P.sorts.sortOf(x.Type())
			switch x.Type().Underlying().(type) {
			case *types.Signature, *types.Map, *types.Interface, *types.Pointer:
			default:
				v = Term{ex.P.sorts.zeroOf(want), want}
			}
		}
		fr.vals[x] = v
	case token.NOT:
		fr.vals[x] = not(bs.tm(fr.value(x.X), "Bool", pos))
	case token.SUB:
		t := bs.tm(fr.value(x.X), "Int", pos)
		fr.vals[x] = ex.P.wrap(Term{"(- " + t.S + ")", "Int"}, x.Type())
	default:
		ex.unsup(pos, "unary operator %s", x.Op)
		fr.vals[x] = bs.freshOf(x.Type(), "unop", pos)
	}
}

func isNilConst(v ssa.Value) bool {
	c, ok := v.(*ssa.Const)
	return ok && c.Value == nil
}

func (bs *blockState) binop(x *ssa.BinOp) Val {
	fr := bs.fr
	ex := fr.ex
	pos := x.Pos()
	// comparisons with nil
	if x.Op == token.EQL || x.Op == token.NEQ {
		var other ssa.Value
		if isNilConst(x.X) {
			other = x.Y
		} else if isNilConst(x.Y) {
			other = x.X
		}
		if other != nil {
			if _, isBasic := other.Type().Underlying().(*types.Basic); !isBasic {
				res := bs.nilTest(other, pos)
				if x.Op == token.NEQ {
					res = not(res)
				}
				return res
			}
		}
	}
	lv, rv := fr.value(x.X), fr.value(x.Y)
	l := bs.tm(lv, "", pos)
	r := bs.tm(rv, l.Sort, pos)
	if l.Sort == "Nil" {
		l = bs.tm(lv, r.Sort, pos)
	}
	switch x.Op {
	case token.EQL, token.NEQ:
		if l.Sort != r.Sort {
			ex.unsup(pos, "comparison between sorts %s and %s", l.Sort, r.Sort)
			return ex.fresh("cmp", "Bool")
		}
		h, _ := sortParts(l.Sort)
		if h == "Slice" || l.Sort == "Bytes" {
			ex.unsup(pos, "comparison of slices")
			return ex.fresh("cmp", "Bool")
		}
		if x.Op == token.EQL {
			return eq(l, r)
		}
		return not(eq(l, r))
	case token.LSS, token.LEQ, token.GTR, token.GEQ:
		if l.Sort != "Int" || r.Sort != "Int" {
			ex.unsup(pos, "ordered comparison on sort %s", l.Sort)
			return ex.fresh("cmp", "Bool")
		}
		op := map[token.Token]string{token.LSS: "<", token.LEQ: "<=", token.GTR: ">", token.GEQ: ">="}[x.Op]
		return Term{"(" + op + " " + l.S + " " + r.S + ")", "Bool"}
	case token.ADD:
		if l.Sort == "Str" {
			return Term{"(sconcat " + l.S + " " + r.S + ")", "Str"}
		}
		return ex.P.wrap(Term{"(+ " + l.S + " " + r.S + ")", "Int"}, x.Type())
	case token.SUB:
		return ex.P.wrap(Term{"(- " + l.S + " " + r.S + ")", "Int"}, x.Type())
	case token.MUL:
		return ex.P.wrap(Term{"(* " + l.S + " " + r.S + ")", "Int"}, x.Type())
	case token.QUO:
		bs.safe("divzero", not(eq(r, intLit(0))), pos)
		return ex.P.wrap(Term{"(tdiv " + l.S + " " + r.S + ")", "Int"}, x.Type())
	case token.REM:
		bs.safe("divzero", not(eq(r, intLit(0))), pos)
		return Term{"(tmod " + l.S + " " + r.S + ")", "Int"}
	case token.LAND, token.LOR:
	}
	ex.unsup(pos, "binary operator %s", x.Op)
	return bs.freshOf(x.Type(), "binop", pos)
}

// nilTest returns the condition "v is nil".
func (bs *blockState) nilTest(v ssa.Value, pos token.Pos) Term {
	fr := bs.fr
	ex := fr.ex
	val := fr.value(v)
	switch x := val.(type) {
	case Term:
		switch {
		case x.Sort == "Err":
			return eq(x, Term{"NoErr", "Err"})
		case x.Sort == "Bytes":
			return eq(x, Term{"bnil", "Bytes"})
		case x.Sort == "Nil":
			return tTrue
		}
		if h, _ := sortParts(x.Sort); h == "Slice" {
			// non-byte slices carry no nil flag: a nil slice is empty, an empty slice may or may not be nil
			if f, ok := fr.nilFlags[v]; ok {
				return f
			}
			f := ex.fresh("isnil", "Bool")
			ex.emit("(assert (=> %s (= (slen %s) 0)))", f.S, x.S)
			fr.nilFlags[v] = f
			return f
		}
		if _, isPtr := v.Type().Underlying().(*types.Pointer); isPtr {
			if _, isParam := v.(*ssa.Parameter); isParam {
				return tFalse // pointer parameters (messages) are non-nil
			}
			if f, ok := fr.nilFlags[v]; ok {
				return f
			}
			f := ex.fresh("isnil", "Bool")
			fr.nilFlags[v] = f
			return f
		}
	case *Ptr, *FuncVal, *BytesRef, *IterVal:
		return tFalse
	case *Boxed:
		return tFalse
	}
	ex.unsup(pos, "nil test on %T of type %s", val, v.Type())
	return ex.fresh("isnil", "Bool")
}

func (bs *blockState) convert(x *ssa.Convert) Val {
	fr := bs.fr
	ex := fr.ex
	pos := x.Pos()
	from, to := x.X.Type().Underlying(), x.Type().Underlying()
	v := bs.tm(fr.value(x.X), "", pos)
	fb, fok := from.(*types.Basic)
	tb, tok := to.(*types.Basic)
	switch {
	case fok && tok && fb.Info()&types.IsInteger != 0 && tb.Info()&types.IsInteger != 0:
		return ex.P.wrap(v, x.Type())
	case fok && fb.Info()&types.IsString != 0 && ex.P.sorts.sortOf(x.Type()) == "Bytes":
		return Term{"(s2b " + v.S + ")", "Bytes"}
	case tok && tb.Info()&types.IsString != 0 && v.Sort == "Bytes":
		return Term{"(b2s " + v.S + ")", "Str"}
	case v.Sort == ex.P.sorts.sortOf(x.Type()):
		return v
	}
	ex.unsup(pos, "conversion %s -> %s", x.X.Type(), x.Type())
	return bs.freshOf(x.Type(), "conv", pos)
}

func (bs *blockState) typeAssert(x *ssa.TypeAssert) {
	fr := bs.fr
	ex := fr.ex
	pos := x.Pos()
	v := fr.value(x.X)
	if bx, ok := v.(*Boxed); ok && types.Identical(bx.typ, x.AssertedType) {
		if x.CommaOk {
			fr.vals[x] = &Tuple{[]Val{bx.val, tTrue}}
		} else {
			fr.vals[x] = bx.val
		}
		return
	}
	// tx context values: ctx.Context().Value("tx_hash"/"msg_index") are functions of the sdk context
	if t, ok := bs.txContextValue(x); ok {
		ex.trusted["type assertion at "+ex.P.posString(pos)+" assumed to succeed (A4: tx context values)"] = true
		if x.CommaOk {
			fr.vals[x] = &Tuple{[]Val{t, ex.fresh("assert_ok", "Bool")}}
		} else {
			fr.vals[x] = t
		}
		return
	}
	// unknown dynamic type: the asserted value is arbitrary
	var res Val
	if pt, ok := x.AssertedType.Underlying().(*types.Pointer); ok {
		if _, isStruct := pt.Elem().Underlying().(*types.Struct); isStruct {
			s := ex.P.sorts.sortOf(pt.Elem())
			c := ex.newCell("asserted", s)
			f := ex.fresh("asserted", s)
			if r := ex.P.rangeFact(f, pt.Elem()); r.S != "true" {
				ex.emit("(assert %s)", r.S)
			}
			bs.st.cells[c] = f
			res = &Ptr{cell: c}
		}
	}
	if res == nil {
		res = bs.freshOf(x.AssertedType, "asserted", pos)
	}
	if x.CommaOk {
		fr.vals[x] = &Tuple{[]Val{res, ex.fresh("assert_ok", "Bool")}}
	} else {
		// a failing assertion panics; recorded as an assumption of the environment (A4) unless boxed type known
		ex.trusted["type assertion at "+ex.P.posString(pos)+" assumed to succeed (A4: tx context values)"] = true
		fr.vals[x] = res
	}
}

func (bs *blockState) sliceOp(x *ssa.Slice) {
	fr := bs.fr
	ex := fr.ex
	pos := x.Pos()
	base := fr.value(x.X)
	var lo, hi Term
	hasLo, hasHi := x.Low != nil, x.High != nil
	if hasLo {
		lo = bs.tm(fr.value(x.Low), "Int", pos)
	} else {
		lo = intLit(0)
	}
	if hasHi {
		hi = bs.tm(fr.value(x.High), "Int", pos)
	}
	var max3 *Term
	if x.Max != nil {
		// x[lo:hi:max] has the value of x[lo:hi] (only its capacity differs); Go panics unless hi <= max <= cap(x). cap(x) is not
		// modelled, so the (sufficient) condition max <= len(x) is required, like hi <= len(x) for two-index slices
		m := bs.tm(fr.value(x.Max), "Int", pos)
		max3 = &m
	}
	if max3 != nil {
		if !hasHi {
			ex.unsup(pos, "3-index slice without a high bound")
		} else if t, ok := base.(Term); ok {
			if l, err := lenTerm(t); err == nil {
				bs.safe("slice3", and(Term{"(<= " + hi.S + " " + max3.S + ")", "Bool"}, Term{"(<= " + max3.S + " " + l.S + ")", "Bool"}), pos)
			} else {
				ex.unsup(pos, "3-index slice of %s", t.Sort)
			}
		} else {
			ex.unsup(pos, "3-index slice of a local buffer")
		}
	}
	switch b := base.(type) {
	case *Ptr:
		if b.cell != nil && b.cell.sort == "Bytes" && len(b.path) == 0 {
			n := x.X.Type().Underlying().(*types.Pointer).Elem().Underlying().(*types.Array).Len()
			if !hasHi {
				hi = intLit(n)
			}
			bs.safe("slice", and(Term{"(<= 0 " + lo.S + ")", "Bool"}, Term{"(<= " + lo.S + " " + hi.S + ")", "Bool"}, Term{fmt.Sprintf("(<= %s %d)", hi.S, n), "Bool"}), pos)
			fr.vals[x] = &BytesRef{cell: b.cell, off: lo, len: simplifySub(hi, lo)}
			return
		}
		// pointer to array of T
		if arr, ok := x.X.Type().Underlying().(*types.Pointer).Elem().Underlying().(*types.Array); ok {
			content, ok := bs.load(b, pos).(Term)
			if ok && !hasLo && (!hasHi || hi.S == fmt.Sprint(arr.Len())) {
				es := ex.P.sorts.sortOf(arr.Elem())
				fr.vals[x] = Term{fmt.Sprintf("(mkSlice %d %s)", arr.Len(), content.S), "(Slice " + es + ")"}
				return
			}
		}
		ex.unsup(pos, "slice of array pointer with bounds")
		fr.vals[x] = bs.freshOf(x.Type(), "slice", pos)
	case *BytesRef:
		if !hasHi {
			hi = b.len
		}
		bs.safe("slice", and(Term{"(<= 0 " + lo.S + ")", "Bool"}, Term{"(<= " + lo.S + " " + hi.S + ")", "Bool"}, Term{"(<= " + hi.S + " " + b.len.S + ")", "Bool"}), pos)
		fr.vals[x] = &BytesRef{cell: b.cell, off: simplifyAdd(b.off, lo), len: simplifySub(hi, lo)}
	default:
		t := bs.tm(base, "", pos)
		switch {
		case t.Sort == "Bytes":
			if !hasHi {
				hi = Term{"(blen " + t.S + ")", "Int"}
			}
			// note: Go allows hi up to cap; we require hi <= len (stricter, reported as a safety obligation)
			bs.safe("slice", and(Term{"(<= 0 " + lo.S + ")", "Bool"}, Term{"(<= " + lo.S + " " + hi.S + ")", "Bool"}, Term{"(<= " + hi.S + " (blen " + t.S + "))", "Bool"}), pos)
			fr.vals[x] = ex.define("sl", Term{"(bslice " + t.S + " " + lo.S + " " + hi.S + ")", "Bytes"})
		case t.Sort == "Str":
			if !hasHi {
				hi = Term{"(strlen " + t.S + ")", "Int"}
			}
			bs.safe("slice", and(Term{"(<= 0 " + lo.S + ")", "Bool"}, Term{"(<= " + lo.S + " " + hi.S + ")", "Bool"}, Term{"(<= " + hi.S + " (strlen " + t.S + "))", "Bool"}), pos)
			fr.vals[x] = Term{"(ssub " + t.S + " " + lo.S + " " + hi.S + ")", "Str"}
		default:
			h, args := sortParts(t.Sort)
			if h == "Slice" && !hasLo {
				if !hasHi {
					fr.vals[x] = t
					return
				}
				bs.safe("slice", and(Term{"(<= 0 " + hi.S + ")", "Bool"}, Term{"(<= " + hi.S + " (slen " + t.S + "))", "Bool"}), pos)
				fr.vals[x] = Term{"(mkSlice " + hi.S + " (sarr " + t.S + "))", t.Sort}
				_ = args
				return
			}
			ex.unsup(pos, "slice expression on sort %s", t.Sort)
			fr.vals[x] = bs.freshOf(x.Type(), "slice", pos)
		}
	}
}

func simplifySub(a, b Term) Term {
	if b.S == "0" {
		return a
	}
	return Term{"(- " + a.S + " " + b.S + ")", "Int"}
}

func simplifyAdd(a, b Term) Term {
	if a.S == "0" {
		return b
	}
	if b.S == "0" {
		return a
	}
	return Term{"(+ " + a.S + " " + b.S + ")", "Int"}
}

func isOpaqueSort(s string) bool {
	return s == "Iface" || s == "Func" || strings.HasPrefix(s, "Opaque_") || strings.HasPrefix(s, "Map_")
}

// txContextValue recognises ctx.Context().Value(K).(T) for the two keys the ante handler sets (types.TxHash, types.MsgIndex).
func (bs *blockState) txContextValue(x *ssa.TypeAssert) (Term, bool) {
	call, ok := x.X.(*ssa.Call)
	if !ok || !call.Call.IsInvoke() || call.Call.Method.Name() != "Value" || len(call.Call.Args) != 1 {
		return Term{}, false
	}
	mi, ok := call.Call.Args[0].(*ssa.MakeInterface)
	if !ok {
		return Term{}, false
	}
	k, ok := mi.X.(*ssa.Const)
	if !ok || k.Value == nil || k.Value.Kind() != constant.String {
		return Term{}, false
	}
	rc, ok := call.Call.Value.(*ssa.Call)
	if !ok || rc.Call.IsInvoke() || len(rc.Call.Args) != 1 {
		return Term{}, false
	}
	if f := rc.Call.StaticCallee(); f == nil || f.Name() != "Context" {
		return Term{}, false
	}
	cv, ok := bs.fr.value(rc.Call.Args[0]).(Term)
	if !ok || cv.Sort != "Ctx" {
		return Term{}, false
	}
	switch constant.StringVal(k.Value) {
	case "tx_hash":
		return Term{S: "(ctxTxHash " + cv.S + ")", Sort: "Bytes"}, true
	case "msg_index":
		return Term{S: "(ctxMsgIndex " + cv.S + ")", Sort: "Int"}, true
	}
	return Term{}, false
}
