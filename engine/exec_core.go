package main

import (
	"fmt"
	"go/token"
	"go/types"
	"sort"
	"strings"

	"golang.org/x/tools/go/ssa"
)

// Val is a symbolic value: Term, *Ptr, *Tuple, *FuncVal, *IterVal, *Boxed, *BytesRef.
type Val interface{}

type Cell struct {
	id   int
	name string
	sort string
	ro   bool // read-only view of (part of) a value: a store through it would have to reach the original
}

type PathElem struct {
	field int // index into StructInfo.Fields, or -1 for an index element
	idx   Term
}

// Ptr is a static path into a local cell, or an element of a slice value (load-only).
type Ptr struct {
	cell  *Cell
	path  []PathElem
	slice *Term // element of a slice/bytes value
	idx   Term
	bref  *BytesRef // element of a mutable byte buffer
	glob  string    // pointer to a package-level variable
	globSort string
}

type Tuple struct{ vals []Val }

type FuncVal struct {
	fn       *ssa.Function
	bindings []Val
}

type IterVal struct {
	snap Term // store snapshot at creation
	pfx  Term // Prefix
	pos  *Cell
}

type Boxed struct {
	typ types.Type
	val Val
}

// RangeVal is a map range in progress.
type RangeVal struct {
	m        Term
	visited  *Cell
	keySort  string
	elemSort string
}

// MapRef is a Go map created in the function under verification: a reference to a cell holding the map's current value.
type MapRef struct {
	cell *Cell
}

// SliceRef is a non-byte slice created by make in the function under verification: a reference to a cell holding the
// slice's current value, so that element stores (s[i] = v) are modelled. Copies of the reference share the cell.
type SliceRef struct {
	cell *Cell
}

type BytesRef struct {
	cell     *Cell
	off, len Term
}

// St is the flowing symbolic state.
type St struct {
	cells map[*Cell]Val
	glob  map[string]Term
}

func (s *St) clone() *St {
	n := &St{cells: make(map[*Cell]Val, len(s.cells)), glob: make(map[string]Term, len(s.glob))}
	for k, v := range s.cells {
		n.cells[k] = v
	}
	for k, v := range s.glob {
		n.glob[k] = v
	}
	return n
}

var stateComponents = []string{"raw", "bal", "supply", "cblog", "evlog"}
var stateSorts = map[string]string{
	"raw":    "(Array Key Bytes)",
	"bal":    "(Array Bytes (Array Str Int))",
	"supply": "(Array Str Int)",
	"cblog":  "CbLog",
	"evlog":  "EvLog",
}

// Obl is a proof obligation: Goal must follow from lines[:Prefix].
type Obl struct {
	Name   string
	Kind   string
	Goal   Term
	Prefix int
	Props  []string
	Pos    token.Pos
	Src    string
	Cover  bool // expected sat (vacuity guard)
}

type panicRec struct {
	cond   Term
	desc   string
	prefix int
	pos    token.Pos
}

// Exec accumulates the verification condition of one top-level function.
type Exec struct {
	P           *Program
	top         *ssa.Function
	topC        *Contract
	lines       []string
	obls        []*Obl
	nfresh      int
	ncell       int
	unsupported []string
	panics      []panicRec
	trusted     map[string]bool
	usedContracts map[string]bool
	inlined     map[string]bool
	ncall       map[string]int
	sliceCells  map[*Cell]bool // cells behind SliceRef values
	entry       *St
	theories    map[string]bool
}

func (ex *Exec) emit(format string, a ...interface{}) {
	ex.lines = append(ex.lines, fmt.Sprintf(format, a...))
}

func (ex *Exec) unsup(pos token.Pos, format string, a ...interface{}) {
	msg := fmt.Sprintf(format, a...)
	ex.unsupported = append(ex.unsupported, ex.P.posString(pos)+": "+msg)
}

func (ex *Exec) freshName(hint string) string {
	ex.nfresh++
	return fmt.Sprintf("%s!%d", sanitize(hint), ex.nfresh)
}

func (ex *Exec) fresh(hint, sortName string) Term {
	n := ex.freshName(hint)
	ex.emit("(declare-const %s %s)", n, sortName)
	return Term{n, sortName}
}

func (ex *Exec) define(hint string, t Term) Term {
	if len(t.S) < 24 && !strings.HasPrefix(t.S, "(") {
		return t
	}
	n := ex.freshName(hint)
	ex.emit("(define-fun %s () %s %s)", n, t.Sort, t.S)
	return Term{n, t.Sort}
}

func (ex *Exec) assume(cond, fact Term) {
	f := implies(cond, fact)
	if f.S == "true" {
		return
	}
	ex.emit("(assert %s)", f.S)
}

func (ex *Exec) oblige(name, kind string, goal Term, props []string, pos token.Pos, src string) {
	if goal.S == "true" {
		// still count trivially true goals: they are discharged syntactically
	}
	ex.obls = append(ex.obls, &Obl{Name: name, Kind: kind, Goal: goal, Prefix: len(ex.lines), Props: props, Pos: pos, Src: src})
}

func (ex *Exec) newCell(name, sortName string) *Cell {
	ex.ncell++
	return &Cell{id: ex.ncell, name: name, sort: sortName}
}

// Frame is one (possibly inlined) function activation.
type Frame struct {
	ex        *Exec
	fn        *ssa.Function
	contract  *Contract // contract supplying loop invariants (top-level contract)
	loopPfx   string    // key prefix for loops of inlined callees, e.g. "GetEarnedFees."
	depth     int
	vals      map[ssa.Value]Val
	names     map[string]Val // source-level names (DebugRef, params, alloc comments)
	cellNames map[string]*Cell
	entrySt   *St
	oldEnv    *Env
	callPath  string
	loops     map[*ssa.BasicBlock]*loopCtx
	callerStack []*ssa.Function
	nilFlags  map[ssa.Value]Term
}

type loopCtx struct {
	header   *ssa.BasicBlock
	spec     *LoopSpec
	key      string
	names    map[string]Val
	cellNames map[string]*Cell
	body     map[*ssa.BasicBlock]bool
	nback    int
	entry    map[string]Term // state components when the loop was entered (entry_raw, entry_bal, ... in invariants)
}

type retRec struct {
	cond Term
	vals []Val
	st   *St
}

type edgeRec struct {
	cond Term
	st   *St
}

// run executes the function body symbolically from the given state.
func (fr *Frame) run(reach Term, st *St) []retRec {
	fn := fr.fn
	ex := fr.ex
	if len(fn.Blocks) == 0 {
		ex.unsup(fn.Pos(), "function %s has no body", fn.String())
		return nil
	}
	if bad, where := aliasCheck(fn); len(bad) > 0 {
		for i, a := range bad {
			nm := a.Comment
			if nm == "" {
				nm = a.Name()
			}
			ex.unsup(where[i].Pos(), "the address of variable %s of %s is retained in a slice, struct or map and the variable is assigned again afterwards (retained pointers alias; aggregates have value semantics here)", nm, fn.Name())
		}
	}
	if a, b := aliasingPointerParams(fn); a != nil {
		ex.unsup(fn.Pos(), "pointer parameters %s and %s of %s have the same type and one of them is written through: they may alias (distinct cells are assumed)", a.Name(), b.Name(), fn.Name())
	}
	order, back := blockOrder(fn)
	fr.loops = map[*ssa.BasicBlock]*loopCtx{}
	edges := map[[2]int]edgeRec{} // (pred index, succ index)
	var rets []retRec
	for _, b := range order {
		var in []edgeRec
		var inIdx []int // index into b.Preds
		var backPreds []int
		if b.Index == 0 {
			in = append(in, edgeRec{reach, st})
			inIdx = append(inIdx, -1)
		}
		for i, p := range b.Preds {
			if back[[2]int{p.Index, b.Index}] {
				backPreds = append(backPreds, i)
				continue
			}
			if e, ok := edges[[2]int{p.Index, b.Index}]; ok && e.cond.S != "false" {
				in = append(in, e)
				inIdx = append(inIdx, i)
			}
		}
		if len(in) == 0 {
			continue // unreachable
		}
		cur, curReach := fr.merge(b, in)
		// phis
		phiVals := map[*ssa.Phi]Val{}
		for _, ins := range b.Instrs {
			phi, ok := ins.(*ssa.Phi)
			if !ok {
				break
			}
			var vs []Val
			var cs []Term
			for k, pi := range inIdx {
				if pi < 0 {
					continue
				}
				vs = append(vs, fr.value(phi.Edges[pi]))
				cs = append(cs, in[k].cond)
			}
			phiVals[phi] = fr.mergeVals(phi.Name(), vs, cs, phi.Pos())
		}
		if len(backPreds) > 0 {
			cur, curReach = fr.enterLoop(b, cur, curReach, phiVals)
		}
		for phi, v := range phiVals {
			fr.vals[phi] = v
			if phi.Comment != "" {
				fr.names[phi.Comment] = v
			}
		}
		// body
		blk := &blockState{fr: fr, st: cur, reach: curReach, b: b}
		for _, ins := range b.Instrs {
			if _, ok := ins.(*ssa.Phi); ok {
				continue
			}
			blk.exec(ins)
			if blk.done {
				break
			}
		}
		// record out-edges
		for _, oe := range blk.out {
			if back[[2]int{b.Index, oe.succ.Index}] {
				fr.backEdge(b, oe.succ, oe.cond, blk.st)
				continue
			}
			key := [2]int{b.Index, oe.succ.Index}
			if prev, ok := edges[key]; ok {
				// both successors are the same block
				edges[key] = edgeRec{or(prev.cond, oe.cond), blk.st}
			} else {
				edges[key] = edgeRec{oe.cond, blk.st}
			}
		}
		rets = append(rets, blk.rets...)
	}
	return rets
}

type outEdge struct {
	succ *ssa.BasicBlock
	cond Term
}

type blockState struct {
	curCall *ssa.CallCommon // the call being executed by a native model (for models that inspect the SSA arguments)
	pendingBindings []Val
	fr    *Frame
	st    *St
	reach Term
	b     *ssa.BasicBlock
	out   []outEdge
	rets  []retRec
	done  bool
}

// blockOrder returns a topological order of the CFG with back edges removed, and the set of back edges.
func blockOrder(fn *ssa.Function) ([]*ssa.BasicBlock, map[[2]int]bool) {
	back := map[[2]int]bool{}
	for _, b := range fn.Blocks {
		for _, s := range b.Succs {
			if s.Dominates(b) {
				back[[2]int{b.Index, s.Index}] = true
			}
		}
	}
	visited := map[int]bool{}
	var post []*ssa.BasicBlock
	var dfs func(b *ssa.BasicBlock)
	dfs = func(b *ssa.BasicBlock) {
		visited[b.Index] = true
		for _, s := range b.Succs {
			if back[[2]int{b.Index, s.Index}] || visited[s.Index] {
				continue
			}
			dfs(s)
		}
		post = append(post, b)
	}
	dfs(fn.Blocks[0])
	for i, j := 0, len(post)-1; i < j; i, j = i+1, j-1 {
		post[i], post[j] = post[j], post[i]
	}
	return post, back
}

// loopBody returns the natural loop of header h.
func loopBody(h *ssa.BasicBlock) map[*ssa.BasicBlock]bool {
	body := map[*ssa.BasicBlock]bool{h: true}
	var stack []*ssa.BasicBlock
	for _, p := range h.Preds {
		if h.Dominates(p) && !body[p] {
			body[p] = true
			stack = append(stack, p)
		}
	}
	for len(stack) > 0 {
		b := stack[len(stack)-1]
		stack = stack[:len(stack)-1]
		for _, p := range b.Preds {
			if !body[p] {
				body[p] = true
				stack = append(stack, p)
			}
		}
	}
	return body
}

// merge joins the incoming states of a block.
func (fr *Frame) merge(b *ssa.BasicBlock, in []edgeRec) (*St, Term) {
	ex := fr.ex
	if len(in) == 1 {
		return in[0].st.clone(), in[0].cond
	}
	var conds []Term
	for _, e := range in {
		conds = append(conds, e.cond)
	}
	reach := ex.define(fmt.Sprintf("r_b%d", b.Index), or(conds...))
	out := &St{cells: map[*Cell]Val{}, glob: map[string]Term{}}
	// cells
	seen := map[*Cell]bool{}
	var cells []*Cell
	for _, e := range in {
		for c := range e.st.cells {
			if !seen[c] {
				seen[c] = true
				cells = append(cells, c)
			}
		}
	}
	sort.Slice(cells, func(i, j int) bool { return cells[i].id < cells[j].id })
	for _, c := range cells {
		var vs []Val
		var cs []Term
		for _, e := range in {
			if v, ok := e.st.cells[c]; ok {
				vs = append(vs, v)
				cs = append(cs, e.cond)
			}
		}
		out.cells[c] = fr.mergeVals(c.name, vs, cs, b.Instrs[0].Pos())
	}
	for _, g := range stateComponents {
		var vs []Val
		var cs []Term
		for _, e := range in {
			vs = append(vs, e.st.glob[g])
			cs = append(cs, e.cond)
		}
		out.glob[g] = fr.mergeVals(g, vs, cs, token.NoPos).(Term)
	}
	return out, reach
}

type unknownVal struct{ why string }

func sameVal(a, b Val) bool {
	switch x := a.(type) {
	case Term:
		y, ok := b.(Term)
		return ok && x.S == y.S
	case *Ptr:
		y, ok := b.(*Ptr)
		if !ok || x.cell != y.cell || len(x.path) != len(y.path) || x.glob != y.glob {
			return false
		}
		for i := range x.path {
			if x.path[i].field != y.path[i].field || x.path[i].idx.S != y.path[i].idx.S {
				return false
			}
		}
		return (x.slice == nil) == (y.slice == nil) && (x.slice == nil || x.slice.S == y.slice.S) && x.idx.S == y.idx.S && x.bref == y.bref
	case *FuncVal:
		y, ok := b.(*FuncVal)
		return ok && x.fn == y.fn
	case *IterVal:
		y, ok := b.(*IterVal)
		return ok && x.pos == y.pos
	case *BytesRef:
		y, ok := b.(*BytesRef)
		return ok && x.cell == y.cell && x.off.S == y.off.S && x.len.S == y.len.S
	case *SliceRef:
		y, ok := b.(*SliceRef)
		return ok && x.cell == y.cell
	case *Boxed:
		y, ok := b.(*Boxed)
		return ok && sameVal(x.val, y.val)
	case *Tuple:
		y, ok := b.(*Tuple)
		if !ok || len(x.vals) != len(y.vals) {
			return false
		}
		for i := range x.vals {
			if !sameVal(x.vals[i], y.vals[i]) {
				return false
			}
		}
		return true
	case nil:
		return b == nil
	}
	return false
}

// mergeVals builds the ite-merge of values under their edge conditions.
func (fr *Frame) mergeVals(hint string, vs []Val, cs []Term, pos token.Pos) Val {
	if len(vs) == 0 {
		return &unknownVal{"no incoming value"}
	}
	all := true
	for _, v := range vs[1:] {
		if !sameVal(vs[0], v) {
			all = false
			break
		}
	}
	if all {
		return vs[0]
	}
	// all must be terms of the same sort (nil constants adapt)
	var ts []Term
	sortName := ""
	for _, v := range vs {
		t, ok := v.(Term)
		if !ok {
			return &unknownVal{fmt.Sprintf("cannot merge %T values for %s", v, hint)}
		}
		if t.Sort != "Nil" {
			if sortName != "" && sortName != t.Sort {
				return &unknownVal{fmt.Sprintf("sort mismatch merging %s: %s vs %s", hint, sortName, t.Sort)}
			}
			sortName = t.Sort
		}
		ts = append(ts, t)
	}
	if sortName == "" {
		return ts[0]
	}
	for i := range ts {
		if ts[i].Sort == "Nil" {
			ts[i] = Term{fr.ex.P.sorts.zeroOf(sortName), sortName}
		}
	}
	res := ts[len(ts)-1]
	for i := len(ts) - 2; i >= 0; i-- {
		res = ite(cs[i], ts[i], res)
	}
	if h, _ := sortParts(sortName); h == "Array" || sortName == "CbLog" || sortName == "EvLog" {
		// state components stay atomic symbols (usable in quantifier patterns)
		c := fr.ex.fresh("m_"+hint, sortName)
		fr.ex.emit("(assert (= %s %s))", c.S, res.S)
		return c
	}
	return fr.ex.define("m_"+hint, res)
}

// ---------------------------------------------------------------- loops

// modifiedInLoop statically determines the cells and state components written in a loop body.
func (fr *Frame) modifiedInLoop(body map[*ssa.BasicBlock]bool) (allocs map[*ssa.Alloc]bool, globs map[string]bool, iters bool) {
	allocs = map[*ssa.Alloc]bool{}
	globs = map[string]bool{}
	var root func(v ssa.Value) ssa.Value
	root = func(v ssa.Value) ssa.Value {
		switch x := v.(type) {
		case *ssa.FieldAddr:
			return root(x.X)
		case *ssa.IndexAddr:
			return root(x.X)
		case *ssa.Slice:
			return root(x.X)
		case *ssa.MakeInterface:
			return root(x.X)
		case *ssa.ChangeType:
			return root(x.X)
		}
		return v
	}
	for b := range body {
		for _, ins := range b.Instrs {
			switch x := ins.(type) {
			case *ssa.Store:
				if a, ok := root(x.Addr).(*ssa.Alloc); ok {
					allocs[a] = true
				}
			case ssa.CallInstruction:
				cc := x.Common()
				for _, a := range cc.Args {
					if al, ok := root(a).(*ssa.Alloc); ok {
						if _, isPtr := a.Type().Underlying().(*types.Pointer); isPtr {
							allocs[al] = true
						} else if _, isIface := a.Type().Underlying().(*types.Interface); isIface {
							allocs[al] = true
						} else if _, isSl := a.Type().Underlying().(*types.Slice); isSl {
							allocs[al] = true
						}
					}
				}
				for g := range fr.ex.P.callMods(cc, fr) {
					globs[g] = true
				}
				if cc.IsInvoke() && cc.Method.Name() == "Next" {
					iters = true
				}
			}
		}
	}
	return
}

// freeVarsWritten: indexes of the captured variables a closure may assign (a store through the captured pointer, or the pointer
// handed on to a call or to an inner closure).
func freeVarsWritten(fn *ssa.Function) map[int]bool {
	out := map[int]bool{}
	idx := map[*ssa.FreeVar]int{}
	for i, fv := range fn.FreeVars {
		idx[fv] = i
	}
	var root func(v ssa.Value) ssa.Value
	root = func(v ssa.Value) ssa.Value {
		switch x := v.(type) {
		case *ssa.FieldAddr:
			return root(x.X)
		case *ssa.IndexAddr:
			return root(x.X)
		}
		return v
	}
	mark := func(v ssa.Value) {
		if f, ok := root(v).(*ssa.FreeVar); ok {
			out[idx[f]] = true
		}
	}
	for _, b := range fn.Blocks {
		for _, ins := range b.Instrs {
			switch x := ins.(type) {
			case *ssa.Store:
				mark(x.Addr)
			case *ssa.MakeClosure:
				for _, bd := range x.Bindings {
					mark(bd)
				}
			case ssa.CallInstruction:
				for _, a := range x.Common().Args {
					mark(a)
				}
			}
		}
	}
	return out
}

// callsFunctionValue: does the loop body call through a function value (parameter, captured variable, field) rather than a static callee?
func (fr *Frame) callsFunctionValue(body map[*ssa.BasicBlock]bool) bool {
	for b := range body {
		for _, ins := range b.Instrs {
			if ci, ok := ins.(ssa.CallInstruction); ok {
				cc := ci.Common()
				if cc.IsInvoke() {
					continue
				}
				if _, isBuiltin := cc.Value.(*ssa.Builtin); isBuiltin {
					continue
				}
				if cc.StaticCallee() == nil {
					return true
				}
				for _, a := range cc.Args {
					if _, isSig := a.Type().Underlying().(*types.Signature); isSig {
						return true
					}
				}
			}
		}
	}
	return false
}

// enterLoop cuts the loop at its header: checks the invariant on entry, havocs, assumes the invariant.
func (fr *Frame) enterLoop(h *ssa.BasicBlock, st *St, reach Term, phiVals map[*ssa.Phi]Val) (*St, Term) {
	ex := fr.ex
	// loop ordinal by source order of headers
	key := fr.loopPfx + fmt.Sprint(fr.loopOrdinal(h))
	var spec *LoopSpec
	if fr.contract != nil {
		spec = fr.contract.Loops[key]
	}
	lc := &loopCtx{header: h, spec: spec, key: key, body: loopBody(h)}
	fr.loops[h] = lc
	if spec == nil {
		ex.unsup(h.Instrs[0].Pos(), "loop %s of %s has no invariant (key %q)", key, fr.fn.Name(), key)
		spec = &LoopSpec{Key: key}
		lc.spec = spec
	}
	// snapshot names
	lc.names = map[string]Val{}
	for k, v := range fr.names {
		lc.names[k] = v
	}
	lc.cellNames = map[string]*Cell{}
	for k, v := range fr.cellNames {
		lc.cellNames[k] = v
	}
	lc.entry = map[string]Term{}
	for g, t := range st.glob {
		lc.entry[g] = t
	}
	// 1. invariant holds on entry
	envInit := fr.loopEnv(lc, st, phiVals)
	for _, inv := range spec.Invs {
		t, err := envInit.tr(inv.E)
		if err != nil || t.Sort != "Bool" {
			ex.unsup(h.Instrs[0].Pos(), "loop %s invariant %s: %v", key, inv.Label, err)
			continue
		}
		ex.oblige(fmt.Sprintf("%s#inv-init:%s:%s", fr.oblPrefix(), key, inv.Label), "inv-init", implies(reach, t), fr.propsOf(inv), h.Instrs[0].Pos(), inv.Src)
	}
	// 2. havoc
	allocs, globs, _ := fr.modifiedInLoop(lc.body)
	nst := st.clone()
	for a := range allocs {
		if pv, ok := fr.vals[a]; ok {
			if p, ok := pv.(*Ptr); ok && p.cell != nil {
				if _, in := nst.cells[p.cell]; in {
					if tv, isT := nst.cells[p.cell].(Term); isT {
						f := ex.fresh("h_"+p.cell.name, tv.Sort)
						nst.cells[p.cell] = f
					} else {
						nst.cells[p.cell] = &unknownVal{"cell havocked in loop"}
					}
				}
			}
		}
	}
	// maps built by the code (MapRef cells): a loop may update them directly or through a closure; forget them all
	// (a loop invariant must say what it needs about a map)
	for c, v := range nst.cells {
		if tv, ok := v.(Term); ok && strings.HasPrefix(tv.Sort, "Map_") {
			nst.cells[c] = ex.fresh("h_"+c.name, tv.Sort)
		}
	}
	// slices made by the code (SliceRef cells): likewise forgotten at every loop head
	for c, v := range nst.cells {
		if tv, ok := v.(Term); ok && ex.sliceCells[c] {
			nst.cells[c] = ex.fresh("h_"+c.name, tv.Sort)
		}
	}
	// local cells captured by a closure that the loop body may call through a function value
	if fr.callsFunctionValue(lc.body) {
		seen := map[*FuncVal]bool{}
		var walk func(fv *FuncVal)
		walk = func(fv *FuncVal) {
			if seen[fv] || fv.fn == nil {
				return
			}
			seen[fv] = true
			written := freeVarsWritten(fv.fn)
			for k, b := range fv.bindings {
				switch x := b.(type) {
				case *FuncVal:
					walk(x)
				case *Ptr:
					if x.cell == nil {
						continue
					}
					cur, in := nst.cells[x.cell]
					if !in {
						continue
					}
					if inner, ok := cur.(*FuncVal); ok {
						walk(inner)
						continue
					}
					if written[k] {
						if cv, ok := cur.(Term); ok {
							nst.cells[x.cell] = ex.fresh("h_"+x.cell.name, cv.Sort)
						}
					}
				}
			}
		}
		for _, v := range fr.vals {
			if fv, ok := v.(*FuncVal); ok {
				walk(fv)
			}
		}
	}
	// iterator positions
	for c, v := range nst.cells {
		if strings.HasPrefix(c.name, "rangevisited") {
			if tv, ok := v.(Term); ok {
				nst.cells[c] = ex.fresh("h_"+c.name, tv.Sort)
			}
		}
		if strings.HasPrefix(c.name, "itpos") {
			if tv, ok := v.(Term); ok {
				_ = tv
				nst.cells[c] = ex.fresh("h_"+c.name, "Int")
			}
		}
	}
	for g := range globs {
		nst.glob[g] = ex.fresh("h_"+g, stateSorts[g])
	}
	for phi, v := range phiVals {
		so := ex.P.sorts.sortOf(phi.Type())
		if _, ok := v.(Term); !ok {
			if _, isU := v.(*unknownVal); !isU {
				// non-term phi (pointer etc.): must be loop-invariant
				continue
			}
		}
		f := ex.fresh("h_"+phiName(phi), so)
		if r := ex.P.rangeFact(f, phi.Type()); r.S != "true" {
			ex.emit("(assert %s)", r.S)
		}
		phiVals[phi] = f
	}
	// 3. assume the invariant
	envH := fr.loopEnv(lc, nst, phiVals)
	for _, inv := range spec.Invs {
		t, err := envH.tr(inv.E)
		if err != nil || t.Sort != "Bool" {
			continue
		}
		ex.assume(reach, t)
	}
	return nst, reach
}

func phiName(phi *ssa.Phi) string {
	if phi.Comment != "" {
		return phi.Comment
	}
	return phi.Name()
}

func (fr *Frame) loopOrdinal(h *ssa.BasicBlock) int {
	var hs []*ssa.BasicBlock
	for _, b := range fr.fn.Blocks {
		for _, p := range b.Preds {
			if b.Dominates(p) {
				hs = append(hs, b)
				break
			}
		}
	}
	pos := func(b *ssa.BasicBlock) token.Pos {
		for _, ins := range b.Instrs {
			if ins.Pos().IsValid() {
				return ins.Pos()
			}
		}
		// fall back to the first positioned instruction in the loop body
		best := token.NoPos
		for bb := range loopBody(b) {
			for _, ins := range bb.Instrs {
				if ins.Pos().IsValid() && (best == token.NoPos || ins.Pos() < best) {
					best = ins.Pos()
				}
			}
		}
		return best
	}
	sort.SliceStable(hs, func(i, j int) bool { return pos(hs[i]) < pos(hs[j]) })
	for i, b := range hs {
		if b == h {
			return i
		}
	}
	return -1
}

// backEdge checks that the invariant is preserved along a back edge.
func (fr *Frame) backEdge(t, h *ssa.BasicBlock, cond Term, st *St) {
	ex := fr.ex
	lc := fr.loops[h]
	if lc == nil {
		ex.unsup(h.Instrs[0].Pos(), "back edge to unprocessed loop header")
		return
	}
	idx := -1
	for i, p := range h.Preds {
		if p == t {
			idx = i
		}
	}
	phiVals := map[*ssa.Phi]Val{}
	for _, ins := range h.Instrs {
		phi, ok := ins.(*ssa.Phi)
		if !ok {
			break
		}
		phiVals[phi] = fr.value(phi.Edges[idx])
	}
	env := fr.loopEnv(lc, st, phiVals)
	lc.nback++
	for _, inv := range lc.spec.Invs {
		tm, err := env.tr(inv.E)
		if err != nil || tm.Sort != "Bool" {
			ex.unsup(h.Instrs[0].Pos(), "loop %s invariant %s (preservation): %v", lc.key, inv.Label, err)
			continue
		}
		ex.oblige(fmt.Sprintf("%s#inv-pres:%s:%s@%d", fr.oblPrefix(), lc.key, inv.Label, lc.nback), "inv-pres", implies(cond, tm), fr.propsOf(inv), h.Instrs[0].Pos(), inv.Src)
	}
}

func (fr *Frame) oblPrefix() string {
	n := shortFuncName(fr.ex.top)
	if fr.callPath != "" {
		n += "/" + fr.callPath
	}
	return n
}

func shortFuncName(fn *ssa.Function) string {
	s := fn.String()
	s = strings.ReplaceAll(s, modPath+"/", "")
	s = strings.ReplaceAll(s, modPath+".", "service.")
	return s
}

// propsOf: a clause counts for the properties of its function and for any extra property it is tagged with.
func (fr *Frame) propsOf(c *Clause) []string {
	out := append([]string{}, c.Props...)
	if fr.ex.topC != nil {
		for _, p := range fr.ex.topC.Props {
			if !hasProp(out, p) {
				out = append(out, p)
			}
		}
	}
	return out
}

// loopEnv builds the environment for a loop invariant.
func (fr *Frame) loopEnv(lc *loopCtx, st *St, phiVals map[*ssa.Phi]Val) *Env {
	env := fr.baseEnv(st, lc.names, lc.cellNames)
	for g, t := range lc.entry {
		env.Vars["entry_"+g] = t
	}
	var intPhis []Term
	defer func() {
		// "iter" = number of completed iterations: ri+1 for a range loop; for a loop written with an explicit index
		// (for i := 0; i < n; i++) it is the single integer loop variable, so that a range loop may be rewritten as an
		// index loop (and back) under the same invariants. If the index does not start at 0 or step by 1 the invariants fail.
		if _, ok := env.Vars["iter"]; !ok && len(intPhis) == 1 {
			env.Vars["iter"] = intPhis[0]
			env.Vars["ri"] = Term{"(- " + intPhis[0].S + " 1)", "Int"}
		}
	}()
	for phi, v := range phiVals {
		t, ok := v.(Term)
		if !ok {
			continue
		}
		if phi.Comment == "rangeindex" {
			env.Vars["ri"] = t
			env.Vars["iter"] = Term{"(+ " + t.S + " 1)", "Int"}
		} else if phi.Comment != "" {
			env.Vars[phi.Comment] = t
		}
		if t.Sort == "Int" && phi.Comment != "rangeindex" {
			intPhis = append(intPhis, t)
		}
		env.Vars[phi.Name()] = t
	}
	return env
}

// baseEnv binds parameters (via names), named locals, cells and state components.
func (fr *Frame) baseEnv(st *St, names map[string]Val, cellNames map[string]*Cell) *Env {
	env := &Env{Vars: map[string]Term{}, P: fr.ex.P, Old: fr.oldEnv}
	if fr.contract != nil {
		env.Ren = fr.contract.Ren
	}
	for k, v := range names {
		fr.bindName(env, k, v, st)
	}
	for k, c := range cellNames {
		if v, ok := st.cells[c]; ok {
			fr.bindName(env, k, v, st)
		}
	}
	for _, g := range stateComponents {
		env.Vars[g] = st.glob[g]
	}
	return env
}

func (fr *Frame) bindName(env *Env, k string, v Val, st *St) {
	switch x := v.(type) {
	case Term:
		if x.Sort != "Nil" {
			env.Vars[k] = x
		}
	case *IterVal:
		if pv, ok := st.cells[x.pos].(Term); ok {
			env.Vars[k+"_pos"] = pv
		}
		env.Vars[k+"_snap"] = x.snap
		env.Vars[k+"_pfx"] = x.pfx
	case *Ptr:
		if x.cell != nil && len(x.path) == 0 {
			switch cv := st.cells[x.cell].(type) {
			case Term:
				env.Vars[k] = cv
			case *MapRef, *IterVal, *BytesRef, *SliceRef:
				fr.bindName(env, k, cv, st)
			}
		}
	case *MapRef:
		if cv, ok := st.cells[x.cell].(Term); ok {
			env.Vars[k] = cv
		}
	case *SliceRef:
		if cv, ok := st.cells[x.cell].(Term); ok {
			env.Vars[k] = cv
		}
	case *BytesRef:
		if cv, ok := st.cells[x.cell].(Term); ok {
			env.Vars[k] = Term{fmt.Sprintf("(bbuf %s %s %s)", cv.S, x.off.S, x.len.S), "Bytes"}
		}
	}
}
