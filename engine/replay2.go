package main

import (
	"encoding/json"
	"fmt"
	"go/types"
	"os"
	"os/exec"
	"path/filepath"
	"regexp"
	"strings"
	"time"

	"golang.org/x/tools/go/ssa"
)

// Generic replay (second class of functions, DESIGN I.6 "Replay"): package-level functions and value-receiver methods of
// package types whose parameters (for a method: the fields of its receiver) are integers, booleans, strings, byte strings
// and addresses. Strings and byte strings are abstract sorts in the encoding, so the model gives only their LENGTH and
// nil-ness; the replay builds a value of that length (filled with 'a') and accepts the counterexample only if the real
// function, run on it, returns a value that contradicts the violated clause in a ground re-check where the argument is a
// fresh constant constrained to the same length and nil-ness. Fields of other kinds (coin lists, lists of addresses) are
// left at their zero value; if the clause depends on them the re-check is inconclusive and nothing is claimed.

type rpField struct {
	goName string // field name ("" for a plain parameter)
	goType types.Type
	kind   string // int | bool | str | bytes | other
	smt    string // SMT term denoting the value in the failed query
	sort   string
}

type rpParam struct {
	name   string
	typ    types.Type
	isRecv bool
	fields []rpField // one entry for a plain parameter, the struct fields for a struct
	sort   string
	smt    string
}

func rpKind(t types.Type) string {
	switch u := t.Underlying().(type) {
	case *types.Basic:
		switch {
		case u.Info()&types.IsInteger != 0:
			return "int"
		case u.Info()&types.IsBoolean != 0:
			return "bool"
		case u.Info()&types.IsString != 0:
			return "str"
		}
	case *types.Slice:
		if b, ok := u.Elem().Underlying().(*types.Basic); ok && b.Kind() == types.Uint8 {
			return "bytes"
		}
	}
	return "other"
}

func replayable2(p *Program, fr *FuncResult) (*ssa.Function, []rpParam, bool) {
	if fr.Contract == nil || fr.Contract.Kind != "func" {
		return nil, nil, false
	}
	fn := p.funcs[fr.Contract.Func]
	if fn == nil || fn.Pkg == nil || fn.Pkg.Pkg.Path() != modPath+"/types" || fn.Parent() != nil || len(fn.Params) != len(fr.ModelVars) {
		return nil, nil, false
	}
	res := fn.Signature.Results()
	if res.Len() != 1 {
		return nil, nil, false
	}
	switch rpKind(res.At(0).Type()) {
	case "int", "bool":
	default:
		if res.At(0).Type().String() != "error" {
			return nil, nil, false
		}
	}
	var out []rpParam
	for i, prm := range fn.Params {
		rp := rpParam{name: prm.Name(), typ: prm.Type(), isRecv: i == 0 && fn.Signature.Recv() != nil, sort: p.sorts.sortOf(prm.Type()), smt: fr.ModelVars[i].S}
		if k := rpKind(prm.Type()); k != "other" {
			rp.fields = []rpField{{goType: prm.Type(), kind: k, smt: rp.smt, sort: rp.sort}}
			out = append(out, rp)
			continue
		}
		st, ok := prm.Type().Underlying().(*types.Struct)
		si, known := p.sig.Structs[rp.sort]
		if !ok || !known {
			return nil, nil, false
		}
		for k, f := range si.Fields {
			var gt types.Type
			for j := 0; j < st.NumFields(); j++ {
				if st.Field(j).Name() == f.Name {
					gt = st.Field(j).Type()
				}
			}
			if gt == nil {
				return nil, nil, false
			}
			rp.fields = append(rp.fields, rpField{goName: f.Name, goType: gt, kind: rpKind(gt), smt: selOf(si, k, rp.smt), sort: f.Sort})
		}
		out = append(out, rp)
	}
	return fn, out, true
}

func tryReplayGeneric(p *Program, oc *oblOutcome, runDir string) *replayOutcome {
	fn, prms, ok := replayable2(p, oc.Func)
	if !ok {
		return nil
	}
	ro := &replayOutcome{Attempted: true, Inputs: map[string]interface{}{}}
	query := groundQuery(p.assembleQuery(oc.Func, oc.Obl, false))
	var terms []string
	for _, pr := range prms {
		for _, f := range pr.fields {
			switch f.kind {
			case "int", "bool":
				terms = append(terms, f.smt)
			case "str":
				terms = append(terms, "(strlen "+f.smt+")")
			case "bytes":
				terms = append(terms, "(blen "+f.smt+")", "(= "+f.smt+" bnil)")
			}
		}
	}
	if len(terms) == 0 {
		return nil
	}
	vals, st := askValues(runDir, query, terms)
	if st != "sat" {
		ro.Note = "solver gave no model (" + st + ")"
		return ro
	}
	var decls []string // ground constants for abstract arguments
	nconst := 0
	goVal := func(f rpField, label string) (goExpr, smtTerm string, ok bool) {
		tn := types.TypeString(f.goType, func(pk *types.Package) string {
			switch pk.Path() {
			case modPath + "/types":
				return ""
			case "github.com/cosmos/cosmos-sdk/types":
				return "sdk"
			case "github.com/tendermint/tendermint/libs/bytes":
				return "tmbytes"
			}
			return pk.Name()
		})
		switch f.kind {
		case "int":
			v := vals[f.smt]
			ro.Inputs[label] = v
			return fmt.Sprintf("%s(%s)", tn, v), smtIntS(v), v != ""
		case "bool":
			v := vals[f.smt]
			ro.Inputs[label] = v
			return v, v, v == "true" || v == "false"
		case "str":
			var n int64
			fmt.Sscan(vals["(strlen "+f.smt+")"], &n)
			if n < 0 || n > 1<<20 {
				return "", "", false
			}
			nconst++
			c := fmt.Sprintf("rp_s%d", nconst)
			decls = append(decls, fmt.Sprintf("(declare-const %s Str)", c), fmt.Sprintf("(assert (= (strlen %s) %d))", c, n))
			ro.Inputs[label] = fmt.Sprintf("string of length %d", n)
			return fmt.Sprintf("%s(strings.Repeat(\"a\", %d))", tn, n), c, true
		case "bytes":
			var n int64
			fmt.Sscan(vals["(blen "+f.smt+")"], &n)
			isNil := vals["(= "+f.smt+" bnil)"] == "true"
			if n < 0 || n > 1<<20 {
				return "", "", false
			}
			nconst++
			c := fmt.Sprintf("rp_b%d", nconst)
			decls = append(decls, fmt.Sprintf("(declare-const %s Bytes)", c), fmt.Sprintf("(assert (= (blen %s) %d))", c, n))
			if isNil && n == 0 {
				decls = append(decls, fmt.Sprintf("(assert (= %s bnil))", c))
				ro.Inputs[label] = "nil"
				return fmt.Sprintf("%s(nil)", tn), c, true
			}
			decls = append(decls, fmt.Sprintf("(assert (not (= %s bnil)))", c))
			ro.Inputs[label] = fmt.Sprintf("%d bytes", n)
			return fmt.Sprintf("%s(bytes.Repeat([]byte{'a'}, %d))", tn, n), c, true
		}
		return "", p.sorts.zeroOf(f.sort), true // other kinds: Go zero value, SMT zero value
	}
	var callArgs []string
	recvExpr := ""
	env := &Env{Vars: map[string]Term{}, P: p}
	for _, pr := range prms {
		if len(pr.fields) == 1 && pr.fields[0].goName == "" {
			g, s, ok := goVal(pr.fields[0], pr.name)
			if !ok {
				ro.Note = "model value out of the replayable range"
				return ro
			}
			callArgs = append(callArgs, g)
			env.Vars[pr.name] = Term{s, pr.sort}
			continue
		}
		si := p.sig.Structs[pr.sort]
		var goFields, smtFields []string
		for _, f := range pr.fields {
			g, s, ok := goVal(f, pr.name+"."+f.goName)
			if !ok {
				ro.Note = "model value out of the replayable range"
				return ro
			}
			if g != "" {
				goFields = append(goFields, f.goName+": "+g)
			}
			smtFields = append(smtFields, s)
		}
		tn := strings.TrimPrefix(pr.sort, "")
		lit := tn + "{" + strings.Join(goFields, ", ") + "}"
		smt := "(" + si.Ctor + " " + strings.Join(smtFields, " ") + ")"
		env.Vars[pr.name] = Term{smt, pr.sort}
		if pr.isRecv {
			recvExpr = lit
		} else {
			callArgs = append(callArgs, lit)
		}
	}
	call := fn.Name() + "(" + strings.Join(callArgs, ", ") + ")"
	if recvExpr != "" {
		call = "(" + recvExpr + ")." + call
	}
	resType := fn.Signature.Results().At(0).Type().String()
	show := "fmt.Sprint(r)"
	if resType == "error" {
		show = `map[bool]string{true: "NoErr", false: "(SomeErr 1)"}[r == nil]`
	}
	test := fmt.Sprintf(`package types

import (
	"bytes"
	"fmt"
	"strings"
	"testing"

	sdk "github.com/cosmos/cosmos-sdk/types"
	tmbytes "github.com/tendermint/tendermint/libs/bytes"
)

var _ = bytes.Repeat
var _ = strings.Repeat
var _ sdk.AccAddress
var _ tmbytes.HexBytes

func TestGovcReplay(t *testing.T) {
	defer func() {
		if e := recover(); e != nil {
			fmt.Printf("GOVC-REPLAY panic %%v\n", e)
		}
	}()
	r := %s
	fmt.Printf("GOVC-REPLAY value %%s\n", %s)
}
`, call, show)
	testFile := filepath.Join(runDir, "zz_govc_replay_test.go")
	os.MkdirAll(runDir, 0o755)
	os.WriteFile(testFile, []byte(test), 0o644)
	ov := filepath.Join(runDir, "overlay.json")
	ovb, _ := json.Marshal(map[string]map[string]string{"Replace": {filepath.Join(p.repo, "types", "zz_govc_replay_test.go"): testFile}})
	os.WriteFile(ov, ovb, 0o644)
	cmd := exec.Command("go", "test", "-overlay", ov, "-vet=off", "-count=1", "-v", "-timeout", "120s", "-run", "TestGovcReplay", ".")
	cmd.Dir = filepath.Join(p.repo, "types")
	cmd.Env = append(os.Environ(), "GOFLAGS=-mod=mod", "GOPROXY=off", "GOSUMDB=off", "GOTOOLCHAIN=local")
	done := make(chan struct{})
	var out []byte
	go func() { out, _ = cmd.CombinedOutput(); close(done) }()
	select {
	case <-done:
	case <-time.After(150 * time.Second):
		cmd.Process.Kill()
		ro.Note = "replay run timed out"
		return ro
	}
	ro.TestFile = testFile
	m := regexp.MustCompile(`GOVC-REPLAY (value|panic) (.*)`).FindStringSubmatch(string(out))
	if m == nil {
		ro.Note = "replay produced no result: " + truncate(string(out), 400)
		return ro
	}
	ro.Observed = m[1] + " " + m[2]
	if m[1] == "panic" {
		if oc.Obl.Kind == "safe" {
			ro.Replayed = true
			ro.Note = "the real code panics on an input of the shape the solver found"
		} else {
			ro.Note = "the real code panicked on the solver's input"
		}
		return ro
	}
	if oc.Obl.Kind != "post" {
		ro.Note = "the counterexample is for an intermediate obligation; the real result was obtained but there is no clause to evaluate it against"
		return ro
	}
	var clause *Clause
	for _, e := range oc.Func.Contract.Ensures {
		if strings.HasSuffix(oc.Obl.Name, "#post:"+e.Label) {
			clause = e
		}
	}
	if clause == nil {
		return ro
	}
	obs := strings.TrimSpace(m[2])
	rs := p.sorts.sortOf(fn.Signature.Results().At(0).Type())
	if rs == "Int" {
		obs = smtIntS(obs)
	}
	env.Vars["result"] = Term{obs, rs}
	env.Vars["err"] = Term{obs, rs}
	for i := 0; i < fn.Signature.Results().Len(); i++ {
		if nm := fn.Signature.Results().At(i).Name(); nm != "" {
			env.Vars[nm] = Term{obs, rs}
		}
	}
	for _, g := range stateComponents {
		env.Vars[g] = Term{"raw_unused_" + g, stateSorts[g]}
	}
	env.Old = env
	env.Ren = oc.Func.Contract.Ren
	t, err := env.tr(clause.E)
	if err != nil {
		ro.Note = "cannot evaluate the clause on concrete values: " + err.Error()
		return ro
	}
	dummy := &Obl{Name: "replay", Goal: not(t), Prefix: len(decls), Cover: false}
	q := p.assembleQuery(&FuncResult{Exec: &Exec{lines: decls}, Theories: oc.Func.Theories}, dummy, false)
	f := filepath.Join(runDir, "replay_ground.smt2")
	os.WriteFile(f, []byte(q), 0o644)
	gout, _ := exec.Command("z3-new", "-T:20", f).CombinedOutput()
	verdict := ""
	for _, l := range strings.Split(string(gout), "\n") {
		l = strings.TrimSpace(l)
		if l == "" || strings.HasPrefix(l, "WARNING") {
			continue
		}
		verdict = l
		break
	}
	if verdict == "unsat" {
		ro.Replayed = true
		ro.Note = "the real function, run on an input of the shape the solver found (lengths and scalars from the model), returns a value that contradicts the clause (ground re-check unsat)"
	} else {
		ro.Note = "the real function's result on such an input is consistent with the clause (ground re-check " + verdict + "): no failing input established"
	}
	return ro
}
