package main

import (
	"fmt"
	"strconv"
	"strings"
)

// Term is an SMT-LIB term with its sort.
type Term struct {
	S    string
	Sort string
}

func (t Term) String() string { return t.S }

func T(s, sort string) Term { return Term{s, sort} }

var tTrue = Term{"true", "Bool"}
var tFalse = Term{"false", "Bool"}

func intLit(v int64) Term {
	if v < 0 {
		return Term{fmt.Sprintf("(- %d)", -v), "Int"}
	}
	return Term{strconv.FormatInt(v, 10), "Int"}
}

func and(ts ...Term) Term {
	var parts []string
	for _, t := range ts {
		if t.S == "true" {
			continue
		}
		if t.S == "false" {
			return tFalse
		}
		parts = append(parts, t.S)
	}
	switch len(parts) {
	case 0:
		return tTrue
	case 1:
		return Term{parts[0], "Bool"}
	}
	return Term{"(and " + strings.Join(parts, " ") + ")", "Bool"}
}

func or(ts ...Term) Term {
	var parts []string
	for _, t := range ts {
		if t.S == "false" {
			continue
		}
		if t.S == "true" {
			return tTrue
		}
		parts = append(parts, t.S)
	}
	switch len(parts) {
	case 0:
		return tFalse
	case 1:
		return Term{parts[0], "Bool"}
	}
	return Term{"(or " + strings.Join(parts, " ") + ")", "Bool"}
}

func not(t Term) Term {
	switch t.S {
	case "true":
		return tFalse
	case "false":
		return tTrue
	}
	return Term{"(not " + t.S + ")", "Bool"}
}

func implies(a, b Term) Term {
	if a.S == "true" {
		return b
	}
	if b.S == "true" || a.S == "false" {
		return tTrue
	}
	return Term{"(=> " + a.S + " " + b.S + ")", "Bool"}
}

func eq(a, b Term) Term { return Term{"(= " + a.S + " " + b.S + ")", "Bool"} }

func ite(c, a, b Term) Term {
	if c.S == "true" {
		return a
	}
	if c.S == "false" {
		return b
	}
	if a.S == b.S {
		return a
	}
	return Term{"(ite " + c.S + " " + a.S + " " + b.S + ")", a.Sort}
}

func app(fn, sort string, args ...Term) Term {
	if len(args) == 0 {
		return Term{fn, sort}
	}
	parts := make([]string, len(args))
	for i, a := range args {
		parts[i] = a.S
	}
	return Term{"(" + fn + " " + strings.Join(parts, " ") + ")", sort}
}

// ---------------------------------------------------------------- AST

type Expr interface{}
type EIdent struct{ Name string }
type EInt struct{ V string }
type EStr struct{ V string }
type EBool struct{ V bool }
type ECall struct {
	Fn   string
	Args []Expr
}
type EField struct {
	X Expr
	F string
}
type EIndex struct{ X, I Expr }
type EUn struct {
	Op string
	X  Expr
}
type EBin struct {
	Op   string
	L, R Expr
}
type EOld struct{ X Expr }
type BVar struct{ Name, Sort string }
type EQuant struct {
	Forall bool
	Vars   []BVar
	Trig   [][]Expr
	Body   Expr
}
type ELet struct {
	Name      string
	Val, Body Expr
}
type ECond struct{ C, A, B Expr }
type ERaw struct{ S, Sort string } // raw SMT escape: smt[Sort]{...}

// ---------------------------------------------------------------- lexer

type etok struct {
	kind string // id int str op eof
	val  string
	pos  int
}

func lexExpr(src string) ([]etok, error) {
	var toks []etok
	i := 0
	n := len(src)
	ops3 := []string{"<==>", "==>", "<==", "::", ":=", "==", "!=", "<=", ">=", "&&", "||"}
	for i < n {
		c := src[i]
		switch {
		case c == ' ' || c == '\t' || c == '\n' || c == '\r':
			i++
		case c >= '0' && c <= '9':
			j := i
			if c == '0' && i+1 < n && (src[i+1] == 'x' || src[i+1] == 'X') {
				j = i + 2
				for j < n && strings.ContainsRune("0123456789abcdefABCDEF", rune(src[j])) {
					j++
				}
				v, err := strconv.ParseUint(src[i+2:j], 16, 64)
				if err != nil {
					return nil, err
				}
				toks = append(toks, etok{"int", strconv.FormatUint(v, 10), i})
			} else {
				for j < n && ((src[j] >= '0' && src[j] <= '9') || src[j] == '_') {
					j++
				}
				toks = append(toks, etok{"int", strings.ReplaceAll(src[i:j], "_", ""), i})
			}
			i = j
		case c == '_' || (c >= 'a' && c <= 'z') || (c >= 'A' && c <= 'Z') || c == '$':
			j := i
			for j < n && (src[j] == '_' || src[j] == '$' || src[j] == '\'' || (src[j] >= 'a' && src[j] <= 'z') || (src[j] >= 'A' && src[j] <= 'Z') || (src[j] >= '0' && src[j] <= '9')) {
				j++
			}
			toks = append(toks, etok{"id", src[i:j], i})
			i = j
		case c == '"':
			j := i + 1
			for j < n && src[j] != '"' {
				if src[j] == '\\' {
					j++
				}
				j++
			}
			if j >= n {
				return nil, fmt.Errorf("unterminated string at %d", i)
			}
			v, err := strconv.Unquote(src[i : j+1])
			if err != nil {
				return nil, err
			}
			toks = append(toks, etok{"str", v, i})
			i = j + 1
		default:
			matched := false
			for _, op := range ops3 {
				if strings.HasPrefix(src[i:], op) {
					toks = append(toks, etok{"op", op, i})
					i += len(op)
					matched = true
					break
				}
			}
			if matched {
				continue
			}
			if strings.ContainsRune("()[]{},.!<>+-*/%?:", rune(c)) {
				toks = append(toks, etok{"op", string(c), i})
				i++
				continue
			}
			return nil, fmt.Errorf("unexpected character %q at %d in %q", c, i, src)
		}
	}
	toks = append(toks, etok{"eof", "", n})
	return toks, nil
}

// ---------------------------------------------------------------- parser

type exprParser struct {
	toks []etok
	p    int
	src  string
}

func parseExpr(src string) (Expr, error) {
	toks, err := lexExpr(src)
	if err != nil {
		return nil, err
	}
	ps := &exprParser{toks: toks, src: src}
	e, err := ps.parse(0)
	if err != nil {
		return nil, err
	}
	if ps.peek().kind != "eof" {
		return nil, fmt.Errorf("trailing input at %d in %q", ps.peek().pos, src)
	}
	return e, nil
}

func (ps *exprParser) peek() etok { return ps.toks[ps.p] }
func (ps *exprParser) next() etok  { t := ps.toks[ps.p]; ps.p++; return t }
func (ps *exprParser) isOp(v string) bool {
	t := ps.peek()
	return t.kind == "op" && t.val == v
}
func (ps *exprParser) expectOp(v string) error {
	if !ps.isOp(v) {
		return fmt.Errorf("expected %q at %d in %q", v, ps.peek().pos, ps.src)
	}
	ps.p++
	return nil
}

var binPrec = map[string]int{
	"<==>": 1, "==>": 2, "||": 3, "&&": 4,
	"==": 5, "!=": 5, "<": 5, "<=": 5, ">": 5, ">=": 5,
	"+": 6, "-": 6, "*": 7, "/": 7, "%": 7,
}

func (ps *exprParser) parse(minPrec int) (Expr, error) {
	lhs, err := ps.parseUnary()
	if err != nil {
		return nil, err
	}
	for {
		t := ps.peek()
		if t.kind != "op" {
			break
		}
		if t.val == "?" && minPrec <= 0 {
			ps.p++
			a, err := ps.parse(1)
			if err != nil {
				return nil, err
			}
			if err := ps.expectOp(":"); err != nil {
				return nil, err
			}
			b, err := ps.parse(0)
			if err != nil {
				return nil, err
			}
			lhs = &ECond{lhs, a, b}
			continue
		}
		prec, ok := binPrec[t.val]
		if !ok || prec < minPrec {
			break
		}
		ps.p++
		var rhs Expr
		if t.val == "==>" || t.val == "<==>" { // right assoc
			rhs, err = ps.parse(prec)
		} else {
			rhs, err = ps.parse(prec + 1)
		}
		if err != nil {
			return nil, err
		}
		lhs = &EBin{t.val, lhs, rhs}
	}
	return lhs, nil
}

func (ps *exprParser) parseUnary() (Expr, error) {
	if ps.isOp("!") {
		ps.p++
		x, err := ps.parseUnary()
		if err != nil {
			return nil, err
		}
		return &EUn{"!", x}, nil
	}
	if ps.isOp("-") {
		ps.p++
		x, err := ps.parseUnary()
		if err != nil {
			return nil, err
		}
		return &EUn{"-", x}, nil
	}
	return ps.parsePostfix()
}

func (ps *exprParser) parseSort() (string, error) {
	t := ps.next()
	if t.kind == "id" {
		return t.val, nil
	}
	if t.kind == "op" && t.val == "(" {
		depth := 1
		parts := []string{"("}
		for depth > 0 {
			u := ps.next()
			if u.kind == "eof" {
				return "", fmt.Errorf("unterminated sort in %q", ps.src)
			}
			if u.kind == "op" && u.val == "(" {
				depth++
			}
			if u.kind == "op" && u.val == ")" {
				depth--
			}
			parts = append(parts, u.val)
		}
		s := strings.Join(parts, " ")
		s = strings.ReplaceAll(s, "( ", "(")
		s = strings.ReplaceAll(s, " )", ")")
		return s, nil
	}
	return "", fmt.Errorf("bad sort at %d in %q", t.pos, ps.src)
}

func (ps *exprParser) parsePostfix() (Expr, error) {
	e, err := ps.parsePrimary()
	if err != nil {
		return nil, err
	}
	for {
		if ps.isOp(".") {
			ps.p++
			t := ps.next()
			if t.kind != "id" {
				return nil, fmt.Errorf("expected field name at %d in %q", t.pos, ps.src)
			}
			e = &EField{e, t.val}
			continue
		}
		if ps.isOp("[") {
			ps.p++
			i, err := ps.parse(0)
			if err != nil {
				return nil, err
			}
			if ps.isOp(":=") { // functional update a[i := v]
				ps.p++
				v, err := ps.parse(0)
				if err != nil {
					return nil, err
				}
				if err := ps.expectOp("]"); err != nil {
					return nil, err
				}
				e = &ECall{"store", []Expr{e, i, v}}
				continue
			}
			if err := ps.expectOp("]"); err != nil {
				return nil, err
			}
			e = &EIndex{e, i}
			continue
		}
		break
	}
	return e, nil
}

func (ps *exprParser) parsePrimary() (Expr, error) {
	t := ps.next()
	switch t.kind {
	case "int":
		return &EInt{t.val}, nil
	case "str":
		return &EStr{t.val}, nil
	case "id":
		switch t.val {
		case "true":
			return &EBool{true}, nil
		case "false":
			return &EBool{false}, nil
		case "forall", "exists":
			q := &EQuant{Forall: t.val == "forall"}
			for {
				nm := ps.next()
				if nm.kind != "id" {
					return nil, fmt.Errorf("expected bound variable at %d in %q", nm.pos, ps.src)
				}
				so, err := ps.parseSort()
				if err != nil {
					return nil, err
				}
				q.Vars = append(q.Vars, BVar{nm.val, so})
				if ps.isOp(",") {
					ps.p++
					continue
				}
				break
			}
			if err := ps.expectOp("::"); err != nil {
				return nil, err
			}
			for ps.isOp("{") {
				ps.p++
				var trig []Expr
				for {
					e, err := ps.parse(0)
					if err != nil {
						return nil, err
					}
					trig = append(trig, e)
					if ps.isOp(",") {
						ps.p++
						continue
					}
					break
				}
				if err := ps.expectOp("}"); err != nil {
					return nil, err
				}
				q.Trig = append(q.Trig, trig)
			}
			body, err := ps.parse(0)
			if err != nil {
				return nil, err
			}
			q.Body = body
			return q, nil
		case "let":
			nm := ps.next()
			if err := ps.expectOp(":="); err != nil {
				return nil, err
			}
			v, err := ps.parse(0)
			if err != nil {
				return nil, err
			}
			in := ps.next()
			if in.kind != "id" || in.val != "in" {
				return nil, fmt.Errorf("expected 'in' at %d in %q", in.pos, ps.src)
			}
			b, err := ps.parse(0)
			if err != nil {
				return nil, err
			}
			return &ELet{nm.val, v, b}, nil
		case "old":
			if err := ps.expectOp("("); err != nil {
				return nil, err
			}
			x, err := ps.parse(0)
			if err != nil {
				return nil, err
			}
			if err := ps.expectOp(")"); err != nil {
				return nil, err
			}
			return &EOld{x}, nil
		}
		if ps.isOp("(") {
			ps.p++
			var args []Expr
			if !ps.isOp(")") {
				for {
					a, err := ps.parse(0)
					if err != nil {
						return nil, err
					}
					args = append(args, a)
					if ps.isOp(",") {
						ps.p++
						continue
					}
					break
				}
			}
			if err := ps.expectOp(")"); err != nil {
				return nil, err
			}
			return &ECall{t.val, args}, nil
		}
		return &EIdent{t.val}, nil
	case "op":
		if t.val == "(" {
			e, err := ps.parse(0)
			if err != nil {
				return nil, err
			}
			if err := ps.expectOp(")"); err != nil {
				return nil, err
			}
			return e, nil
		}
	}
	return nil, fmt.Errorf("unexpected token %q at %d in %q", t.val, t.pos, ps.src)
}

// ---------------------------------------------------------------- translation

// Env binds identifiers for the translation of a contract expression.
type Env struct {
	Vars map[string]Term
	Old  *Env
	P    *Program
	Ren  map[string]string // names of the contract whose source variables have since been renamed (rename.go)
}

func (e *Env) child() *Env {
	n := &Env{Vars: map[string]Term{}, Old: e.Old, P: e.P, Ren: e.Ren}
	for k, v := range e.Vars {
		n.Vars[k] = v
	}
	return n
}

func (env *Env) tr(x Expr) (Term, error) {
	sg := env.P.sig
	switch x := x.(type) {
	case *EInt:
		return Term{x.V, "Int"}, nil
	case *EBool:
		if x.V {
			return tTrue, nil
		}
		return tFalse, nil
	case *EStr:
		return Term{env.P.sorts.strLit(x.V), "Str"}, nil
	case *EIdent:
		if t, ok := env.Vars[x.Name]; ok {
			return t, nil
		}
		if fs, ok := sg.Funs[x.Name]; ok && len(fs.Args) == 0 {
			return Term{x.Name, fs.Ret}, nil
		}
		if t, ok := env.renamed(x.Name); ok {
			return t, nil
		}
		return Term{}, fmt.Errorf("unknown identifier %q", x.Name)
	case *EOld:
		if env.Old == nil {
			return Term{}, fmt.Errorf("old() not allowed here")
		}
		return env.Old.tr(x.X)
	case *EUn:
		t, err := env.tr(x.X)
		if err != nil {
			return t, err
		}
		if x.Op == "!" {
			if t.Sort != "Bool" {
				return t, fmt.Errorf("! applied to %s", t.Sort)
			}
			return not(t), nil
		}
		if t.Sort != "Int" {
			return t, fmt.Errorf("unary - applied to %s", t.Sort)
		}
		return Term{"(- " + t.S + ")", "Int"}, nil
	case *EBin:
		l, err := env.tr(x.L)
		if err != nil {
			return l, err
		}
		r, err := env.tr(x.R)
		if err != nil {
			return r, err
		}
		switch x.Op {
		case "&&", "||", "==>", "<==>":
			if l.Sort != "Bool" || r.Sort != "Bool" {
				return l, fmt.Errorf("%s applied to %s, %s", x.Op, l.Sort, r.Sort)
			}
			switch x.Op {
			case "&&":
				return and(l, r), nil
			case "||":
				return or(l, r), nil
			case "==>":
				return implies(l, r), nil
			}
			return eq(l, r), nil
		case "==", "!=":
			if l.Sort != r.Sort {
				return l, fmt.Errorf("%s between %s and %s (%s vs %s)", x.Op, l.Sort, r.Sort, l.S, r.S)
			}
			if x.Op == "==" {
				return eq(l, r), nil
			}
			return not(eq(l, r)), nil
		case "<", "<=", ">", ">=":
			if l.Sort != "Int" || r.Sort != "Int" {
				return l, fmt.Errorf("%s applied to %s, %s", x.Op, l.Sort, r.Sort)
			}
			return Term{"(" + x.Op + " " + l.S + " " + r.S + ")", "Bool"}, nil
		case "+", "-", "*", "/", "%":
			if l.Sort != "Int" || r.Sort != "Int" {
				return l, fmt.Errorf("%s applied to %s, %s", x.Op, l.Sort, r.Sort)
			}
			op := x.Op
			if op == "/" {
				op = "div"
			}
			if op == "%" {
				op = "mod"
			}
			return Term{"(" + op + " " + l.S + " " + r.S + ")", "Int"}, nil
		}
		return l, fmt.Errorf("unknown operator %s", x.Op)
	case *ECond:
		c, err := env.tr(x.C)
		if err != nil {
			return c, err
		}
		a, err := env.tr(x.A)
		if err != nil {
			return a, err
		}
		b, err := env.tr(x.B)
		if err != nil {
			return b, err
		}
		if c.Sort != "Bool" || a.Sort != b.Sort {
			return c, fmt.Errorf("ill-typed conditional (%s ? %s : %s)", c.Sort, a.Sort, b.Sort)
		}
		return Term{"(ite " + c.S + " " + a.S + " " + b.S + ")", a.Sort}, nil
	case *ELet:
		v, err := env.tr(x.Val)
		if err != nil {
			return v, err
		}
		ch := env.child()
		ch.Vars[x.Name] = Term{x.Name + "!l", v.Sort}
		if env.Old != nil {
			// the let-bound name is also visible inside old(...)
			o := env.Old.child()
			o.Vars[x.Name] = Term{x.Name + "!l", v.Sort}
			ch.Old = o
		}
		b, err := ch.tr(x.Body)
		if err != nil {
			return b, err
		}
		return Term{"(let ((" + x.Name + "!l " + v.S + ")) " + b.S + ")", b.Sort}, nil
	case *EQuant:
		ch := env.child()
		var o *Env
		if env.Old != nil {
			o = env.Old.child()
			ch.Old = o
		}
		var decl []string
		for _, v := range x.Vars {
			ch.Vars[v.Name] = Term{v.Name + "!q", v.Sort}
			if o != nil {
				o.Vars[v.Name] = Term{v.Name + "!q", v.Sort}
			}
			decl = append(decl, "("+v.Name+"!q "+v.Sort+")")
		}
		b, err := ch.tr(x.Body)
		if err != nil {
			return b, err
		}
		if b.Sort != "Bool" {
			return b, fmt.Errorf("quantifier body has sort %s", b.Sort)
		}
		body := b.S
		if len(x.Trig) > 0 {
			var pats []string
			for _, tr := range x.Trig {
				var ps []string
				for _, te := range tr {
					tt, err := ch.tr(te)
					if err != nil {
						return tt, err
					}
					ps = append(ps, tt.S)
				}
				pats = append(pats, ":pattern ("+strings.Join(ps, " ")+")")
			}
			body = "(! " + body + " " + strings.Join(pats, " ") + ")"
		}
		q := "exists"
		if x.Forall {
			q = "forall"
		}
		return Term{"(" + q + " (" + strings.Join(decl, " ") + ") " + body + ")", "Bool"}, nil
	case *EField:
		t, err := env.tr(x.X)
		if err != nil {
			return t, err
		}
		si, ok := sg.Structs[t.Sort]
		if !ok {
			return t, fmt.Errorf("field %s of non-struct sort %s", x.F, t.Sort)
		}
		for i, f := range si.Fields {
			if f.Name == x.F {
				return Term{selOf(si, i, t.S), f.Sort}, nil
			}
		}
		return t, fmt.Errorf("sort %s has no field %s", t.Sort, x.F)
	case *EIndex:
		a, err := env.tr(x.X)
		if err != nil {
			return a, err
		}
		i, err := env.tr(x.I)
		if err != nil {
			return i, err
		}
		return indexTerm(a, i)
	case *ECall:
		// record update: rec[Field := v]
		if x.Fn == "store" && len(x.Args) == 3 {
			if id, ok := x.Args[1].(*EIdent); ok {
				if _, bound := env.Vars[id.Name]; !bound {
					rec, err := env.tr(x.Args[0])
					if err != nil {
						return rec, err
					}
					if si, ok := sg.Structs[rec.Sort]; ok {
						v, err := env.tr(x.Args[2])
						if err != nil {
							return v, err
						}
						parts := make([]string, len(si.Fields))
						found := false
						for i, f := range si.Fields {
							if f.Name == id.Name {
								if f.Sort != v.Sort {
									return v, fmt.Errorf("field %s has sort %s, got %s", f.Name, f.Sort, v.Sort)
								}
								parts[i] = v.S
								found = true
							} else {
								parts[i] = selOf(si, i, rec.S)
							}
						}
						if !found {
							return rec, fmt.Errorf("sort %s has no field %s", rec.Sort, id.Name)
						}
						return Term{"(" + si.Ctor + " " + strings.Join(parts, " ") + ")", rec.Sort}, nil
					}
				}
			}
		}
		var args []Term
		for _, a := range x.Args {
			t, err := env.tr(a)
			if err != nil {
				return t, err
			}
			args = append(args, t)
		}
		return env.call(x.Fn, args)
	}
	return Term{}, fmt.Errorf("cannot translate %T", x)
}

func indexTerm(a, i Term) (Term, error) {
	h, args := sortParts(a.Sort)
	switch {
	case h == "Array":
		if args[0] != i.Sort {
			return a, fmt.Errorf("array index sort %s, expected %s", i.Sort, args[0])
		}
		return Term{"(select " + a.S + " " + i.S + ")", args[1]}, nil
	case h == "Slice":
		return Term{"(select (sarr " + a.S + ") " + i.S + ")", args[0]}, nil
	case a.Sort == "Bytes":
		return Term{"(bat " + a.S + " " + i.S + ")", "Int"}, nil
	}
	return a, fmt.Errorf("cannot index sort %s", a.Sort)
}

func lenTerm(a Term) (Term, error) {
	h, _ := sortParts(a.Sort)
	switch {
	case h == "Slice":
		return Term{"(slen " + a.S + ")", "Int"}, nil
	case a.Sort == "Bytes":
		return Term{"(blen " + a.S + ")", "Int"}, nil
	case a.Sort == "Str":
		return Term{"(strlen " + a.S + ")", "Int"}, nil
	}
	return a, fmt.Errorf("len of sort %s", a.Sort)
}

func (env *Env) call(fn string, args []Term) (Term, error) {
	sg := env.P.sig
	switch fn {
	case "len":
		if len(args) != 1 {
			return Term{}, fmt.Errorf("len arity")
		}
		return lenTerm(args[0])
	case "store":
		if len(args) != 3 {
			return Term{}, fmt.Errorf("store arity")
		}
		h, sa := sortParts(args[0].Sort)
		if h != "Array" || sa[0] != args[1].Sort || sa[1] != args[2].Sort {
			return Term{}, fmt.Errorf("ill-typed store (%s, %s, %s)", args[0].Sort, args[1].Sort, args[2].Sort)
		}
		return app("store", args[0].Sort, args...), nil
	case "ite":
		if len(args) != 3 || args[0].Sort != "Bool" || args[1].Sort != args[2].Sort {
			return Term{}, fmt.Errorf("ill-typed ite")
		}
		return app("ite", args[1].Sort, args...), nil
	case "distinct":
		return app("distinct", "Bool", args...), nil
	case "slen", "sarr", "mkSlice":
		// parametric slice datatype
		switch fn {
		case "slen":
			return app("slen", "Int", args...), nil
		case "sarr":
			_, sa := sortParts(args[0].Sort)
			return app("sarr", "(Array Int "+sa[0]+")", args...), nil
		default:
			_, sa := sortParts(args[1].Sort)
			return app("mkSlice", "(Slice "+sa[1]+")", args...), nil
		}
	case "zero":
		return Term{}, fmt.Errorf("zero() needs a sort; use zero_<Sort>")
	}
	if strings.HasPrefix(fn, "is_") {
		if _, ok := sg.Funs["is-"+fn[3:]]; ok {
			fn = "is-" + fn[3:]
		}
	}
	fs, ok := sg.Funs[fn]
	if !ok {
		return Term{}, fmt.Errorf("unknown function %q", fn)
	}
	if len(fs.Args) != len(args) {
		return Term{}, fmt.Errorf("%s expects %d arguments, got %d", fn, len(fs.Args), len(args))
	}
	for i := range args {
		if fs.Args[i] != args[i].Sort {
			return Term{}, fmt.Errorf("%s argument %d has sort %s, expected %s", fn, i, args[i].Sort, fs.Args[i])
		}
	}
	return app(fn, fs.Ret, args...), nil
}
