package main

import (
	"go/ast"
	"fmt"
	"go/token"
	"go/types"
	"sort"
	"strings"

	"golang.org/x/tools/go/ssa"
)

// structObligations are structural facts recomputed from the SSA on every run (property C20):
// no concurrency, no clock / randomness / OS access, no writes to package-level variables,
// and map ranges whose body does not write module state.
func (p *Program) structObligations() *FuncResult {
	ex := &Exec{P: p, trusted: map[string]bool{}, usedContracts: map[string]bool{}, inlined: map[string]bool{}, ncall: map[string]int{}}
	res := &FuncResult{Name: "service#struct", Contract: &Contract{Kind: "struct", Props: []string{"C20"}}, Exec: ex, Theories: p.defaultTheories()}
	consensus := func(fn *ssa.Function) bool {
		if fn.Pkg == nil || fn.Synthetic != "" {
			return false
		}
		pos := p.fset.Position(fn.Pos())
		f := pos.Filename
		if strings.HasSuffix(f, ".pb.go") || strings.HasSuffix(f, ".pb.gw.go") || strings.HasSuffix(f, "_test.go") || f == "" {
			return false
		}
		return true
	}
	var names []string
	for n := range p.funcs {
		names = append(names, n)
	}
	sort.Strings(names)
	var concurrency, clock, globalStores, mapWrites []string
	nFuncs, nMapRanges := 0, 0
	banned := []string{"time.Now", "time.Since", "time.Until", "math/rand.", "crypto/rand.", "os.", "runtime.", "syscall."}
	for _, n := range names {
		fn := p.funcs[n]
		if !consensus(fn) {
			continue
		}
		nFuncs++
		isInit := fn.Name() == "init" || strings.HasPrefix(fn.Name(), "init#")
		var rangeBlocks []*ssa.BasicBlock
		for _, b := range fn.Blocks {
			for _, ins := range b.Instrs {
				switch x := ins.(type) {
				case *ssa.Go, *ssa.Select, *ssa.Send, *ssa.MakeChan:
					concurrency = append(concurrency, fmt.Sprintf("%s: %T", shortFuncName(fn), ins))
				case *ssa.UnOp:
					if x.Op == token.ARROW {
						concurrency = append(concurrency, shortFuncName(fn)+": channel receive")
					}
				case *ssa.Store:
					if g, ok := x.Addr.(*ssa.Global); ok && !isInit {
						globalStores = append(globalStores, shortFuncName(fn)+" writes "+g.Name())
					}
				case ssa.CallInstruction:
					if callee := x.Common().StaticCallee(); callee != nil {
						cn := callee.String()
						for _, bn := range banned {
							if strings.HasPrefix(cn, bn) {
								clock = append(clock, shortFuncName(fn)+" calls "+cn)
							}
						}
					}
				case *ssa.Range:
					if _, ok := x.X.Type().Underlying().(*types.Map); ok {
						nMapRanges++
						rangeBlocks = append(rangeBlocks, b)
					}
				}
			}
		}
		if len(rangeBlocks) > 0 {
			// any state-writing call inside a loop of a function that ranges over a map
			writes := false
			for _, b := range fn.Blocks {
				inLoop := false
				for _, pb := range fn.Blocks {
					if pb.Dominates(b) {
						for _, pp := range pb.Preds {
							if pb.Dominates(pp) && loopBody(pb)[b] {
								inLoop = true
							}
						}
					}
				}
				if !inLoop {
					continue
				}
				for _, ins := range b.Instrs {
					if ci, ok := ins.(ssa.CallInstruction); ok {
						if len(p.callMods(ci.Common(), nil)) > 0 {
							writes = true
						}
					}
				}
			}
			if writes {
				mapWrites = append(mapWrites, shortFuncName(fn))
			}
		}
	}
	add := func(label string, bad []string, allowed map[string]bool, src string) {
		var real []string
		for _, b := range bad {
			if !allowed[b] {
				real = append(real, b)
			}
		}
		goal := tTrue
		if len(real) > 0 {
			goal = tFalse
			src += " -- found: " + strings.Join(real, "; ")
		}
		ex.obls = append(ex.obls, &Obl{Name: "service#struct:" + label, Kind: "struct", Goal: goal, Props: []string{"C20"}, Src: src})
	}
	add("no_concurrency", concurrency, nil, fmt.Sprintf("no go/select/channel operation in the %d hand-written functions of the module", nFuncs))
	add("no_clock_random_or_os", clock, nil, "no call to time.Now, math/rand, crypto/rand, os, runtime, syscall")
	add("no_writes_to_package_variables", globalStores, nil, "package-level variables are written only by package initialisers")
	// InitGenesis writes one record per map entry under pairwise distinct keys (order-independent; stated assumption)
	add("map_ranges_do_not_write_state", mapWrites, map[string]bool{"service.InitGenesis": true},
		fmt.Sprintf("%d map ranges; a loop in a function that ranges over a map calls nothing that writes module state (InitGenesis excepted: distinct keys)", nMapRanges))
	// routing (C05, C17): the message switch hands every message type to the handler named after it, with (ctx, k, msg); the
	// legacy query switch hands every query path to the query function named after it. Read from the syntax on every run.
	if bad, n := p.routingProblems(); true {
		goal := tTrue
		src := fmt.Sprintf("%d switch cases: case *types.MsgX returns handleMsgX(ctx, k, msg); case types.QueryX returns queryX(...)", n)
		if len(bad) > 0 || n == 0 {
			goal = tFalse
			src += " -- found: " + strings.Join(bad, "; ")
		}
		ex.obls = append(ex.obls, &Obl{Name: "service#struct:every_message_and_query_is_routed_to_its_own_handler", Kind: "struct", Goal: goal, Props: []string{"C05", "C17", "C20"}, Src: src})
	}
	// parameter wiring (C19 C20 C04 C02): the validator the params subspace runs for a key (ParamSetPairs) is the one Params.Validate
	// applies to the same field, so "accepted by a parameter change" and "accepted by genesis validation" are the same set
	{
		var bad []string
		n := 0
		for f, v := range p.paramValidateCalls {
			n++
			if w := p.paramValidators[f]; w != v {
				bad = append(bad, fmt.Sprintf("field %s: Validate applies %s, ParamSetPairs registers %s", f, v, w))
			}
		}
		sort.Strings(bad)
		goal := tTrue
		src := fmt.Sprintf("%d parameters: the validator registered in ParamSetPairs for a field is the validate* function Params.Validate applies to it", n)
		if len(bad) > 0 || n == 0 {
			goal = tFalse
			src += " -- found: " + strings.Join(bad, "; ")
		}
		ex.obls = append(ex.obls, &Obl{Name: "service#struct:parameter_changes_and_genesis_validation_accept_the_same_parameters", Kind: "struct", Goal: goal, Props: []string{"C19", "C20", "C04", "C02"}, Src: src})
	}
	// JSON of the context state enums (C19): a proto enum of package types with its own MarshalJSON (it writes names the proto JSON
	// decoder does not know) must also tell that decoder how to read them back (jsonpb.JSONPBUnmarshaler); otherwise an exported
	// genesis that contains a request context cannot be imported (D12).
	{
		var bad []string
		n := 0
		for _, pk := range p.pkgs {
			if pk.PkgPath != modPath+"/types" {
				continue
			}
			scope := pk.Types.Scope()
			for _, name := range scope.Names() {
				tn, ok := scope.Lookup(name).(*types.TypeName)
				if !ok {
					continue
				}
				named, ok := tn.Type().(*types.Named)
				if !ok {
					continue
				}
				if b, ok := named.Underlying().(*types.Basic); !ok || b.Kind() != types.Int32 {
					continue
				}
				has := func(recv types.Type, m string) bool {
					ms := types.NewMethodSet(recv)
					for i := 0; i < ms.Len(); i++ {
						if ms.At(i).Obj().Name() == m {
							return true
						}
					}
					return false
				}
				if !has(named, "EnumDescriptor") || !has(named, "MarshalJSON") {
					continue
				}
				n++
				if !has(types.NewPointer(named), "UnmarshalJSONPB") {
					bad = append(bad, name+" has MarshalJSON but no UnmarshalJSONPB")
				}
			}
		}
		goal := tTrue
		src := fmt.Sprintf("%d proto enums of package types with a custom MarshalJSON: each implements UnmarshalJSONPB, so the proto JSON codec reads back what it writes", n)
		if len(bad) > 0 {
			goal = tFalse
			src += " -- found: " + strings.Join(bad, "; ")
		}
		ex.obls = append(ex.obls, &Obl{Name: "service#struct:exported_context_states_can_be_read_back_by_the_json_codec", Kind: "struct", Goal: goal, Props: []string{"C19"}, Src: src})
	}
	// module wiring (C05 C11 C17 C19 C20): the AppModule methods the SDK calls hand over to the functions under contract
	if bad, n := p.moduleWiringProblems(); true {
		goal := tTrue
		src := fmt.Sprintf("%d AppModule methods: EndBlock runs EndBlocker(ctx, am.keeper); Route = NewRoute(RouterKey, NewHandler(am.keeper)); LegacyQuerierHandler = keeper.NewQuerier(am.keeper, cdc); RegisterQueryService registers am.keeper; InitGenesis/ExportGenesis call the package functions with am.keeper", n)
		if len(bad) > 0 || n != 6 {
			goal = tFalse
			src += " -- found: " + strings.Join(bad, "; ")
		}
		ex.obls = append(ex.obls, &Obl{Name: "service#struct:the_module_hands_blocks_messages_queries_and_genesis_to_the_functions_under_contract", Kind: "struct", Goal: goal, Props: []string{"C05", "C11", "C17", "C19", "C20"}, Src: src})
	}
	if len(ex.obls) > 0 {
		ex.trusted["InitGenesis iterates over genesis maps: order-independent because the written keys are pairwise distinct (true for exported genesis)"] = true
	}
	res.Obls = ex.obls
	return res
}


// routingProblems inspects NewHandler's type switch and NewQuerier's path switch.
func (p *Program) routingProblems() (bad []string, n int) {
	queryAlias := map[string]string{"QueryDefinition": "queryServiceDefinition", "QueryParameters": "queryParams"}
	for _, pk := range p.pkgs {
		for _, f := range pk.Syntax {
			ast.Inspect(f, func(m ast.Node) bool {
				fd, ok := m.(*ast.FuncDecl)
				if !ok || (fd.Name.Name != "NewHandler" && fd.Name.Name != "NewQuerier") || fd.Body == nil {
					return true
				}
				ast.Inspect(fd.Body, func(x ast.Node) bool {
					switch sw := x.(type) {
					case *ast.TypeSwitchStmt:
						if fd.Name.Name != "NewHandler" {
							return true
						}
						for _, st := range sw.Body.List {
							cc, ok := st.(*ast.CaseClause)
							if !ok || len(cc.List) == 0 {
								continue // default
							}
							n++
							tn := ""
							if se, ok := cc.List[0].(*ast.StarExpr); ok {
								if sel, ok := se.X.(*ast.SelectorExpr); ok {
									tn = sel.Sel.Name
								}
							}
							callee, args := returnedCall(cc.Body)
							want := "handle" + tn
							if tn == "" || len(cc.List) != 1 || callee != want || len(args) != 3 || args[0] != "ctx" || args[1] != "k" || args[2] != "msg" {
								bad = append(bad, fmt.Sprintf("case %s -> %s(%s)", tn, callee, strings.Join(args, ",")))
							}
						}
						return false
					case *ast.SwitchStmt:
						if fd.Name.Name != "NewQuerier" {
							return true
						}
						for _, st := range sw.Body.List {
							cc, ok := st.(*ast.CaseClause)
							if !ok || len(cc.List) == 0 {
								continue
							}
							n++
							qn := ""
							if sel, ok := cc.List[0].(*ast.SelectorExpr); ok {
								qn = sel.Sel.Name
							}
							callee, _ := returnedCall(cc.Body)
							want := "q" + strings.TrimPrefix(qn, "Q")
							if a, ok := queryAlias[qn]; ok {
								want = a
							}
							if qn == "" || len(cc.List) != 1 || callee != want {
								bad = append(bad, fmt.Sprintf("case %s -> %s", qn, callee))
							}
						}
						return false
					}
					return true
				})
				return false
			})
		}
	}
	return bad, n
}

// returnedCall: the body of a case clause must be a single "return f(a, b, ...)"; gives f and the argument identifiers.
func returnedCall(body []ast.Stmt) (string, []string) {
	if len(body) != 1 {
		return "<not a single return>", nil
	}
	rs, ok := body[0].(*ast.ReturnStmt)
	if !ok || len(rs.Results) != 1 {
		return "<not a single return>", nil
	}
	call, ok := rs.Results[0].(*ast.CallExpr)
	if !ok {
		return "<not a call>", nil
	}
	name := "<expr>"
	if id, ok := call.Fun.(*ast.Ident); ok {
		name = id.Name
	}
	var args []string
	for _, a := range call.Args {
		if id, ok := a.(*ast.Ident); ok {
			args = append(args, id.Name)
		} else {
			args = append(args, "<expr>")
		}
	}
	return name, args
}

// moduleWiringProblems inspects (on the SSA, so local renames and temporaries do not matter) the AppModule methods of module.go
// that the SDK calls: each must call, unconditionally (in its entry block), the expected function with the keeper field of its
// own receiver among the arguments.
func (p *Program) moduleWiringProblems() (bad []string, n int) {
	want := map[string]string{
		"EndBlock":             modPath + ".EndBlocker",
		"Route":                modPath + ".NewHandler",
		"LegacyQuerierHandler": modPath + "/keeper.NewQuerier",
		"RegisterQueryService": modPath + "/types.RegisterQueryServer",
		"InitGenesis":          modPath + ".InitGenesis",
		"ExportGenesis":        modPath + ".ExportGenesis",
	}
	var isKeeperOfRecv func(fn *ssa.Function, v ssa.Value) bool
	isKeeperOfRecv = func(fn *ssa.Function, v ssa.Value) bool {
		switch x := v.(type) {
		case *ssa.UnOp:
			return isKeeperOfRecv(fn, x.X)
		case *ssa.MakeInterface:
			return isKeeperOfRecv(fn, x.X)
		case *ssa.ChangeType:
			return isKeeperOfRecv(fn, x.X)
		case *ssa.Field:
			st, ok := x.X.Type().Underlying().(*types.Struct)
			if !ok || st.Field(x.Field).Name() != "keeper" {
				return false
			}
			_, isParam := x.X.(*ssa.Parameter)
			if u, ok := x.X.(*ssa.UnOp); ok {
				_, isParam = u.X.(*ssa.Alloc)
			}
			return isParam
		case *ssa.FieldAddr:
			pt, ok := x.X.Type().Underlying().(*types.Pointer)
			if !ok {
				return false
			}
			st, ok := pt.Elem().Underlying().(*types.Struct)
			if !ok || st.Field(x.Field).Name() != "keeper" {
				return false
			}
			a, isAlloc := x.X.(*ssa.Alloc)
			if !isAlloc || len(fn.Params) == 0 {
				return false
			}
			// the alloc is the addressable copy of the receiver: it is initialised by a store of parameter 0
			for _, ref := range *a.Referrers() {
				if st, ok := ref.(*ssa.Store); ok && st.Addr == ssa.Value(a) && st.Val == ssa.Value(fn.Params[0]) {
					return true
				}
			}
			return false
		}
		return false
	}
	for name, fn := range p.funcs {
		if !strings.HasPrefix(name, "("+modPath+".AppModule).") || fn.Signature.Recv() == nil || len(fn.Blocks) == 0 {
			continue
		}
		target, ok := want[fn.Name()]
		if !ok {
			continue
		}
		n++
		found := false
		for _, ins := range fn.Blocks[0].Instrs {
			call, ok := ins.(ssa.CallInstruction)
			if !ok {
				continue
			}
			cc := call.Common()
			callee := cc.StaticCallee()
			if callee == nil || callee.String() != target {
				continue
			}
			for _, a := range cc.Args {
				if isKeeperOfRecv(fn, a) {
					found = true
				}
			}
		}
		if !found {
			bad = append(bad, fn.Name()+": no unconditional call of "+target+" with the receiver's keeper")
		}
	}
	sort.Strings(bad)
	return bad, n
}
