package main

import (
	"fmt"
	"go/token"
	"go/types"
	"strings"

	"golang.org/x/tools/go/ssa"
)

// ---------------------------------------------------------------- integer helpers

func (p *Program) wrap(t Term, goType types.Type) Term {
	b, ok := goType.Underlying().(*types.Basic)
	if !ok {
		return t
	}
	fn := ""
	switch b.Kind() {
	case types.Int64:
		fn = "wrap_i64"
	case types.Uint64:
		fn = "wrap_u64"
	case types.Int32:
		fn = "wrap_i32"
	case types.Uint32:
		fn = "wrap_u32"
	case types.Int16:
		fn = "wrap_i16"
	case types.Uint16:
		fn = "wrap_u16"
	case types.Int8:
		fn = "wrap_i8"
	case types.Uint8:
		fn = "wrap_u8"
	default:
		return t // int, uint, untyped: treated as mathematical integers (stated abstraction)
	}
	// literals in range need no wrapping
	if isSmallLit(t.S) {
		return t
	}
	return Term{"(" + fn + " " + t.S + ")", "Int"}
}

func isSmallLit(s string) bool {
	if len(s) == 0 || len(s) > 4 {
		return false
	}
	for _, c := range s {
		if c < '0' || c > '9' {
			return false
		}
	}
	return true
}

// rangeFact states the type-range facts of a value of a Go type.
func (p *Program) rangeFact(t Term, goType types.Type) Term {
	r := p.sorts.rngOf(t.S, goType)
	return Term{r, "Bool"}
}

func (p *Program) globalValue(ex *Exec, name, gsort string, pos token.Pos) Val {
	switch name {
	case "encoding/binary.BigEndian":
		return Term{"bigEndian", p.sorts.declareOpaque("Opaque_bigEndian")}
	}
	// error variables of other packages: distinct non-nil errors
	if strings.HasPrefix(name, "github.com/cosmos/cosmos-sdk/types/errors.Err") {
		h := 0
		for _, c := range name {
			h = (h*31 + int(c)) % 1000003
		}
		return Term{fmt.Sprintf("(SomeErr %d)", 1000000+h), "Err"}
	}
	// package-level variables of other packages holding plain values: immutable opaque constants
	if gsort == "Str" || gsort == "Int" || gsort == "Bool" {
		c := "gx_" + sanitize(name)
		if _, ok := p.sig.Funs[c]; !ok {
			p.sig.Funs[c] = &FunSig{Ret: gsort}
			p.sorts.decls = append(p.sorts.decls, fmt.Sprintf("(declare-const %s %s)", c, gsort))
		}
		return Term{c, gsort}
	}
	ex.unsup(pos, "read of package-level variable %s", name)
	return &unknownVal{"global " + name}
}

// ---------------------------------------------------------------- modifies analysis

var modsCache = map[*ssa.Function]map[string]bool{}

func allComponents() map[string]bool {
	m := map[string]bool{}
	for _, g := range stateComponents {
		m[g] = true
	}
	return m
}

func (p *Program) specMods(c *Contract) map[string]bool {
	m := map[string]bool{}
	for _, g := range c.Modifies {
		m[g] = true
	}
	return m
}

// callMods over-approximates the state components a call may modify.
func (p *Program) callMods(cc *ssa.CallCommon, fr *Frame) map[string]bool {
	if cc.IsInvoke() {
		key := invokeKey(cc)
		if c, ok := p.libs[key]; ok {
			return p.specMods(c)
		}
		if isCodecMethod(cc.Method.Name()) || isIterMethod(cc) {
			return nil
		}
		if p.libPattern(key) != nil {
			return nil
		}
		return allComponents()
	}
	if _, ok := cc.Value.(*ssa.Builtin); ok {
		return nil
	}
	if fn := cc.StaticCallee(); fn != nil {
		return p.funcMods(fn, fr, map[*ssa.Function]bool{})
	}
	if fr != nil {
		if fv, ok := fr.vals[cc.Value].(*FuncVal); ok {
			return p.funcMods(fv.fn, fr, map[*ssa.Function]bool{})
		}
	}
	if c := p.dynamicSpec(cc); c != nil {
		return p.specMods(c)
	}
	return allComponents()
}

func (p *Program) funcMods(fn *ssa.Function, fr *Frame, visiting map[*ssa.Function]bool) map[string]bool {
	name := fn.String()
	if fr != nil && fr.contract != nil && fr.contract.Inline[fn.Name()] {
		// forced inline: analyse the body
	} else if c, ok := p.contracts[name]; ok {
		return p.specMods(c)
	}
	if c, ok := p.libs[name]; ok {
		return p.specMods(c)
	}
	if isNativeStatic(name) {
		return nil
	}
	if p.libPattern(name) != nil {
		return nil
	}
	if len(fn.Blocks) == 0 {
		return allComponents()
	}
	if m, ok := modsCache[fn]; ok {
		return m
	}
	if visiting[fn] {
		return nil
	}
	visiting[fn] = true
	m := map[string]bool{}
	for _, b := range fn.Blocks {
		for _, ins := range b.Instrs {
			ci, ok := ins.(ssa.CallInstruction)
			if !ok {
				continue
			}
			cc := ci.Common()
			var sub map[string]bool
			if cc.IsInvoke() || cc.StaticCallee() == nil {
				if _, isB := cc.Value.(*ssa.Builtin); isB {
					continue
				}
				if !cc.IsInvoke() {
					// call through a function value: resolve through the caller frame if possible
					if fr != nil {
						if fv, ok := fr.vals[cc.Value].(*FuncVal); ok {
							sub = p.funcMods(fv.fn, fr, visiting)
							for g := range sub {
								m[g] = true
							}
							continue
						}
					}
					if c := p.dynamicSpec(cc); c != nil {
						for g := range p.specMods(c) {
							m[g] = true
						}
						continue
					}
					for g := range allComponents() {
						m[g] = true
					}
					continue
				}
				sub = p.callMods(cc, nil)
			} else {
				sub = p.funcMods(cc.StaticCallee(), fr, visiting)
			}
			for g := range sub {
				m[g] = true
			}
		}
	}
	delete(visiting, fn)
	hasDyn := false
	for _, b := range fn.Blocks {
		for _, ins := range b.Instrs {
			if ci, ok := ins.(ssa.CallInstruction); ok && !ci.Common().IsInvoke() && ci.Common().StaticCallee() == nil {
				if _, isB := ci.Common().Value.(*ssa.Builtin); !isB {
					hasDyn = true
				}
			}
		}
	}
	if !hasDyn {
		modsCache[fn] = m
	}
	return m
}

func invokeKey(cc *ssa.CallCommon) string {
	return cc.Value.Type().String() + "." + cc.Method.Name()
}

func isCodecMethod(n string) bool {
	return n == "MustMarshalBinaryBare" || n == "MustUnmarshalBinaryBare"
}

func isIterMethod(cc *ssa.CallCommon) bool {
	ts := cc.Value.Type().String()
	if !strings.HasSuffix(ts, ".Iterator") {
		return false
	}
	switch cc.Method.Name() {
	case "Valid", "Next", "Key", "Value", "Close", "Error":
		return true
	}
	return false
}

func isNativeStatic(name string) bool {
	switch name {
	case "(*github.com/cosmos/cosmos-sdk/codec.LegacyAmino).UnmarshalJSON", "github.com/cosmos/cosmos-sdk/codec.MarshalJSONIndent":
		return true
	}
	switch name {
	case "(github.com/cosmos/cosmos-sdk/x/params/types.Subspace).Get":
		return true
	}
	switch name {
	case "github.com/cosmos/cosmos-sdk/types.KVStorePrefixIterator",
		"(encoding/binary.bigEndian).PutUint64", "(encoding/binary.bigEndian).PutUint16",
		"(encoding/binary.bigEndian).Uint64", "(encoding/binary.bigEndian).Uint16":
		return true
	}
	return false
}

// libPattern finds a wildcard library spec ("prefix*").
func (p *Program) libPattern(name string) *Contract {
	for k, c := range p.libs {
		if strings.HasSuffix(k, "*") && strings.HasPrefix(name, strings.TrimSuffix(k, "*")) {
			return c
		}
	}
	return nil
}

func (p *Program) dynamicSpec(cc *ssa.CallCommon) *Contract {
	key := "dynamic:" + cc.Value.Type().String()
	if c, ok := p.libs[key]; ok {
		return c
	}
	return nil
}

// ---------------------------------------------------------------- calls

func (bs *blockState) call(ins ssa.Instruction, cc *ssa.CallCommon) Val {
	fr := bs.fr
	ex := fr.ex
	pos := ins.Pos()
	var resType types.Type
	if v, ok := ins.(ssa.Value); ok {
		resType = v.Type()
	}
	if b, ok := cc.Value.(*ssa.Builtin); ok {
		return bs.builtin(b, cc, resType, pos)
	}
	var args []Val
	if cc.IsInvoke() {
		args = append(args, fr.value(cc.Value))
	}
	for _, a := range cc.Args {
		args = append(args, fr.value(a))
	}
	if cc.IsInvoke() {
		name := cc.Method.Name()
		if isCodecMethod(name) {
			return bs.codec(name, args, pos)
		}
		if isIterMethod(cc) {
			return bs.iterMethod(name, args, pos)
		}
		key := invokeKey(cc)
		if c, ok := ex.P.libs[key]; ok {
			return bs.applySpec(c, key, args, resultTypes(resType), nil, pos)
		}
		if c := ex.P.libPattern(key); c != nil {
			return bs.applySpec(c, key, args, resultTypes(resType), nil, pos)
		}
		ex.unsup(pos, "no specification for interface method %s", key)
		return bs.freshResults(resType, pos)
	}
	var fn *ssa.Function
	var bindings []Val
	if f := cc.StaticCallee(); f != nil {
		fn = f
		if mc, ok := cc.Value.(*ssa.MakeClosure); ok {
			if fv, ok := fr.value(mc).(*FuncVal); ok {
				bindings = fv.bindings
			}
		}
	} else if fv, ok := fr.value(cc.Value).(*FuncVal); ok {
		fn = fv.fn
		bindings = fv.bindings
	}
	if fn == nil {
		if c := ex.P.dynamicSpec(cc); c != nil {
			return bs.applySpec(c, c.Func, args, resultTypes(resType), nil, pos)
		}
		ex.unsup(pos, "call through unknown function value %s of type %s", cc.Value.Name(), cc.Value.Type())
		for _, g := range stateComponents {
			bs.st.glob[g] = ex.fresh("h_"+g, stateSorts[g])
		}
		return bs.freshResults(resType, pos)
	}
	name := fn.String()
	if isNativeStatic(name) {
		bs.curCall = cc
		return bs.native(name, args, resType, pos)
	}
	forceInline := fr.contract != nil && fr.contract.Inline[fn.Name()]
	if c, ok := ex.P.contracts[name]; ok && !forceInline && fn != ex.top {
		ex.usedContracts[name] = true
		bs.pendingBindings = bindings
		return bs.applySpec(c, shortFuncName(fn), args, resultTypes(resType), fn, pos)
	}
	if c, ok := ex.P.libs[name]; ok {
		return bs.applySpec(c, name, args, resultTypes(resType), nil, pos)
	}
	if c := ex.P.libPattern(name); c != nil {
		return bs.applySpec(c, name, args, resultTypes(resType), nil, pos)
	}
	if _, inMod := ex.P.funcs[name]; inMod && len(fn.Blocks) > 0 {
		return bs.inline(fn, args, bindings, resType, pos)
	}
	ex.unsup(pos, "no specification for %s", name)
	for _, g := range stateComponents {
		bs.st.glob[g] = ex.fresh("h_"+g, stateSorts[g])
	}
	return bs.freshResults(resType, pos)
}

func resultTypes(t types.Type) []types.Type {
	if t == nil {
		return nil
	}
	if tp, ok := t.(*types.Tuple); ok {
		var out []types.Type
		for i := 0; i < tp.Len(); i++ {
			out = append(out, tp.At(i).Type())
		}
		return out
	}
	return []types.Type{t}
}

func (bs *blockState) freshResults(t types.Type, pos token.Pos) Val {
	rts := resultTypes(t)
	if len(rts) == 0 {
		return &Tuple{}
	}
	if len(rts) == 1 {
		return bs.freshOf(rts[0], "res", pos)
	}
	tp := &Tuple{}
	for _, rt := range rts {
		tp.vals = append(tp.vals, bs.freshOf(rt, "res", pos))
	}
	return tp
}

// inline executes the callee body in place.
func (bs *blockState) inline(fn *ssa.Function, args []Val, bindings []Val, resType types.Type, pos token.Pos) Val {
	fr := bs.fr
	ex := fr.ex
	if fr.depth > 10 {
		ex.unsup(pos, "inlining depth exceeded at %s", fn.Name())
		return bs.freshResults(resType, pos)
	}
	for _, f := range append(fr.callerStack, fr.fn) {
		if f == fn {
			ex.unsup(pos, "recursive call of %s", fn.Name())
			return bs.freshResults(resType, pos)
		}
	}
	ex.inlined[shortFuncName(fn)] = true
	ex.ncall["inl:"+fn.Name()]++
	path := fn.Name()
	if n := ex.ncall["inl:"+fn.Name()]; n > 1 {
		path = fmt.Sprintf("%s~%d", fn.Name(), n)
	}
	if fr.callPath != "" {
		path = fr.callPath + "/" + path
	}
	nf := &Frame{ex: ex, fn: fn, contract: fr.contract, loopPfx: fn.Name() + ".", depth: fr.depth + 1,
		vals: map[ssa.Value]Val{}, names: map[string]Val{}, cellNames: map[string]*Cell{}, nilFlags: map[ssa.Value]Term{}, entrySt: fr.entrySt, oldEnv: fr.oldEnv,
		callPath: path, callerStack: append(append([]*ssa.Function{}, fr.callerStack...), fr.fn)}
	if len(args) != len(fn.Params) {
		ex.unsup(pos, "argument count mismatch inlining %s", fn.Name())
		return bs.freshResults(resType, pos)
	}
	for i, p := range fn.Params {
		a := args[i]
		// byte buffers passed to callees keep reference semantics; everything else is a value
		nf.vals[p] = a
		nf.names[p.Name()] = a
	}
	for i, fv := range fn.FreeVars {
		if i < len(bindings) {
			nf.vals[fv] = bindings[i]
			nf.names[fv.Name()] = bindings[i]
		}
	}
	// the caller's named locals are visible to the callee's loop invariants as outer_<name> (needed when the callee's loop runs a
	// closure that updates variables of the caller)
	for k, v := range fr.names {
		key := k
		if !strings.HasPrefix(k, "outer_") {
			key = "outer_" + k
		}
		if _, dup := nf.names[key]; !dup {
			nf.names[key] = v
		}
	}
	for k, c := range fr.cellNames {
		key := k
		if !strings.HasPrefix(k, "outer_") {
			key = "outer_" + k
		}
		if _, dup := nf.cellNames[key]; !dup {
			nf.cellNames[key] = c
		}
	}
	// state at the call, visible to the callee's loop invariants as call_raw, call_bal, ...
	for _, g := range stateComponents {
		nf.names["call_"+g] = bs.st.glob[g]
	}
	rets := nf.run(bs.reach, bs.st)
	if len(rets) == 0 {
		// callee never returns on this path
		bs.reach = tFalse
		return bs.freshResults(resType, pos)
	}
	var in []edgeRec
	for _, r := range rets {
		in = append(in, edgeRec{r.cond, r.st})
	}
	if len(rets) == 1 {
		bs.st = rets[0].st.clone()
		bs.reach = rets[0].cond
	} else {
		bs.st, bs.reach = fr.mergeRets(fn, in)
	}
	nres := 0
	if len(rets) > 0 {
		nres = len(rets[0].vals)
	}
	var merged []Val
	for k := 0; k < nres; k++ {
		var vs []Val
		var cs []Term
		for _, r := range rets {
			vs = append(vs, r.vals[k])
			cs = append(cs, r.cond)
		}
		merged = append(merged, fr.mergeVals(fmt.Sprintf("%s_r%d", fn.Name(), k), vs, cs, pos))
	}
	switch nres {
	case 0:
		return &Tuple{}
	case 1:
		return merged[0]
	}
	return &Tuple{merged}
}

func (fr *Frame) mergeRets(fn *ssa.Function, in []edgeRec) (*St, Term) {
	// reuse merge with a pseudo block: build manually
	ex := fr.ex
	var conds []Term
	for _, e := range in {
		conds = append(conds, e.cond)
	}
	reach := ex.define("r_ret_"+fn.Name(), or(conds...))
	out := &St{cells: map[*Cell]Val{}, glob: map[string]Term{}}
	seen := map[*Cell]bool{}
	for _, e := range in {
		for c := range e.st.cells {
			if seen[c] {
				continue
			}
			seen[c] = true
			var vs []Val
			var cs []Term
			for _, e2 := range in {
				if v, ok := e2.st.cells[c]; ok {
					vs = append(vs, v)
					cs = append(cs, e2.cond)
				}
			}
			out.cells[c] = fr.mergeVals(c.name, vs, cs, token.NoPos)
		}
	}
	for _, g := range stateComponents {
		var vs []Val
		var cs []Term
		for _, e := range in {
			vs = append(vs, e.st.glob[g])
			cs = append(cs, e.cond)
		}
		out.glob[g] = fr.mergeVals(g, vs, cs, token.NoPos).(Term)
	}
	return out, reach
}

// paramNames returns the names binding the arguments of a specification.
func specParamNames(c *Contract, fn *ssa.Function, nargs int) []string {
	if len(c.Params) > 0 {
		return c.Params
	}
	var names []string
	if fn != nil {
		for _, p := range fn.Params {
			names = append(names, p.Name())
		}
	}
	for len(names) < nargs {
		names = append(names, fmt.Sprintf("arg%d", len(names)))
	}
	return names
}

func resultNames(c *Contract, fn *ssa.Function, rts []types.Type) []string {
	if len(c.Results) > 0 {
		return c.Results
	}
	var names []string
	if fn != nil {
		res := fn.Signature.Results()
		for i := 0; i < res.Len(); i++ {
			n := res.At(i).Name()
			if n == "" || n == "_" {
				if res.Len() == 1 && res.At(i).Type().String() == "error" {
					n = "err"
				} else if res.Len() == 1 {
					n = "result"
				} else if i == res.Len()-1 && res.At(i).Type().String() == "error" {
					n = "err"
				} else {
					n = fmt.Sprintf("result%d", i)
				}
			}
			names = append(names, n)
		}
		return names
	}
	for i, rt := range rts {
		switch {
		case len(rts) == 1:
			names = append(names, "result")
		case i == len(rts)-1 && rt.String() == "error":
			names = append(names, "err")
		default:
			names = append(names, fmt.Sprintf("result%d", i))
		}
	}
	return names
}

// applySpec uses a contract at a call site: check requires, havoc modifies, assume ensures.
func (bs *blockState) applySpec(c *Contract, display string, args []Val, rts []types.Type, fn *ssa.Function, pos token.Pos) Val {
	fr := bs.fr
	ex := fr.ex
	if c.Trusted && c.Kind == "func" {
		ex.trusted["contract of "+display+" is assumed (trusted), body not verified"] = true
	}
	if c.Kind == "lib" {
		ex.trusted["library contract assumed (spec/50_lib.spec): "+display] = true
		if strings.HasSuffix(display, "Coins).IsEqual") {
			// Coins.IsEqual panics when both lists have the same length and the denominations at some position differ
			ex.trusted["sdk.Coins.IsEqual: lists of equal length handed to IsEqual have pairwise equal denominations (true when all fees are quoted in the base denomination, A15; with a second fee denomination WithdrawEarnedFees could panic here - D1b territory, not decided)"] = true
		}
		if strings.HasSuffix(display, "types.NewCoin") || strings.HasSuffix(display, "types.NewCoins") {
			// NewCoin / NewCoins also panic on a denomination that is not a valid SDK denomination
			ex.trusted["denominations: every denomination handed to sdk.NewCoin / sdk.NewCoins is a valid SDK denomination (BaseDenom by Params.Validate, A6; the denominations of stored coins because they were produced by NewCoin / ParseCoin) - the non-negative amount is an obligation, the denomination is assumed"] = true
		}
	}
	for _, e := range c.Ensures {
		if e.Assumed {
			ex.trusted["assumed clause of "+display+": "+e.Label] = true
		}
	}
	pre := &Env{Vars: map[string]Term{}, P: ex.P, Ren: c.Ren}
	names := specParamNames(c, fn, len(args))
	for i, a := range args {
		if i >= len(names) {
			break
		}
		switch a.(type) {
		case *FuncVal, *IterVal, *unknownVal:
			continue
		}
		if t, ok := a.(Term); ok && t.Sort == "Nil" {
			// typed nil: use the zero value of the parameter sort when known
			if fn != nil && i < len(fn.Params) {
				s := ex.P.sorts.sortOf(fn.Params[i].Type())
				pre.Vars[names[i]] = Term{ex.P.sorts.zeroOf(s), s}
			}
			continue
		}
		pre.Vars[names[i]] = bs.tm(a, "", pos)
	}
	// captured variables of a closure under contract are visible to its contract by name
	if fn != nil && len(bs.pendingBindings) == len(fn.FreeVars) {
		for i, fv := range fn.FreeVars {
			if p, ok := bs.pendingBindings[i].(*Ptr); ok {
				if t, ok := bs.load(p, pos).(Term); ok && t.Sort != "Nil" {
					pre.Vars[fv.Name()] = t
				}
			}
		}
	}
	// a map built by this function and handed to a callee known only by its contract may be changed by it: forget its content
	for _, a := range args {
		if mr, ok := a.(*MapRef); ok {
			bs.st.cells[mr.cell] = ex.fresh("map_after_call", mr.cell.sort)
		}
	}
	for _, b := range bs.pendingBindings {
		if p, ok := b.(*Ptr); ok && p.cell != nil && len(p.path) == 0 {
			if mr, ok := bs.st.cells[p.cell].(*MapRef); ok {
				bs.st.cells[mr.cell] = ex.fresh("map_after_call", mr.cell.sort)
			}
		}
	}
	bs.pendingBindings = nil
	for _, g := range stateComponents {
		pre.Vars[g] = bs.st.glob[g]
	}
	ex.ncall["call:"+display]++
	site := fmt.Sprintf("%s@%d", display, ex.ncall["call:"+display])
	for _, r := range c.Requires {
		t, err := pre.tr(r.E)
		if err != nil || t.Sort != "Bool" {
			ex.unsup(pos, "precondition %s of %s: %v", r.Label, display, err)
			continue
		}
		var props []string
		if ex.topC != nil {
			props = ex.topC.Props
		}
		ex.oblige(fmt.Sprintf("%s#pre:%s:%s", fr.oblPrefix(), site, r.Label), "pre", implies(bs.reach, t), props, pos, r.Src)
		ex.assume(bs.reach, t)
	}
	post := &Env{Vars: map[string]Term{}, P: ex.P, Old: pre, Ren: c.Ren}
	for k, v := range pre.Vars {
		post.Vars[k] = v
	}
	for _, g := range c.Modifies {
		so, ok := stateSorts[g]
		if !ok {
			ex.unsup(pos, "unknown state component %q in modifies of %s", g, display)
			continue
		}
		nv := ex.fresh(g, so)
		bs.st.glob[g] = nv
		post.Vars[g] = nv
	}
	// out-parameters of library functions: the pointee becomes an unconstrained value of its type
	for _, w := range c.Writes {
		for i, n := range names {
			if n != w || i >= len(args) {
				continue
			}
			var ptr *Ptr
			var pt types.Type
			if bx, ok := args[i].(*Boxed); ok {
				if pp, ok := bx.val.(*Ptr); ok {
					ptr, pt = pp, bx.typ
				}
			} else if pp, ok := args[i].(*Ptr); ok {
				ptr = pp
			}
			if ptr == nil || ptr.cell == nil {
				ex.unsup(pos, "%s writes through %s, which is not a pointer to a local", display, w)
				continue
			}
			so := ptr.cell.sort
			if len(ptr.path) > 0 {
				so = fr.pathSort(ptr.cell.sort, ptr.path)
			}
			f := ex.fresh("out_"+w, so)
			if pt != nil {
				if r := ex.P.rangeFact(f, pt); r.S != "true" {
					ex.emit("(assert %s)", r.S)
				}
			}
			bs.store(ptr, f, pos)
		}
	}
	rnames := resultNames(c, fn, rts)
	var results []Val
	if c.Returns != nil && len(rts) == 1 {
		t, err := pre.tr(c.Returns.E)
		want := ex.P.sorts.sortOf(rts[0])
		if err != nil || (t.Sort != want) {
			ex.unsup(pos, "returns clause of %s: %v (sort %s, want %s)", display, err, t.Sort, want)
			t = ex.fresh("res", want)
		}
		t = ex.define("r_"+lastSeg(display), t)
		results = append(results, t)
		post.Vars[rnames[0]] = t
		post.Vars["result"] = t
	} else {
		for i, rt := range rts {
			v := bs.freshOf(rt, "r_"+lastSeg(display), pos)
			results = append(results, v)
			if t, ok := v.(Term); ok && i < len(rnames) {
				post.Vars[rnames[i]] = t
				if len(rts) == 1 {
					post.Vars["result"] = t
				}
			}
		}
	}
	for _, w := range c.Witnesses {
		post.Vars[w.Name] = ex.fresh("w_"+w.Name, w.Sort)
	}
	for _, e := range c.Ensures {
		if e.CheckOnly {
			continue
		}
		t, err := post.tr(e.E)
		if err != nil || t.Sort != "Bool" {
			ex.unsup(pos, "postcondition %s of %s: %v", e.Label, display, err)
			continue
		}
		if e.OnSuccess {
			if ev, ok := post.Vars["err"]; ok && ev.Sort == "Err" {
				t = implies(eq(ev, Term{"NoErr", "Err"}), t)
			}
		}
		ex.assume(bs.reach, t)
	}
	switch len(results) {
	case 0:
		return &Tuple{}
	case 1:
		return results[0]
	}
	return &Tuple{results}
}

func lastSeg(s string) string {
	if i := strings.LastIndexAny(s, "./)"); i >= 0 && i+1 < len(s) {
		s = s[i+1:]
	}
	if i := strings.Index(s, "@"); i >= 0 {
		s = s[:i]
	}
	return sanitize(s)
}

// ---------------------------------------------------------------- natives

func (bs *blockState) codec(name string, args []Val, pos token.Pos) Val {
	fr := bs.fr
	ex := fr.ex
	ex.trusted["codec: MustUnmarshalBinaryBare(MustMarshalBinaryBare(x)) = x per stored type, marshal never returns nil, unmarshal of well-typed bytes does not panic"] = true
	ptrOf := func(v Val) (*Ptr, string) {
		if bx, ok := v.(*Boxed); ok {
			if p, ok := bx.val.(*Ptr); ok {
				if pt, ok := bx.typ.Underlying().(*types.Pointer); ok {
					return p, ex.P.sorts.sortOf(pt.Elem())
				}
			}
		}
		return nil, ""
	}
	if name == "MustMarshalBinaryBare" {
		p, s := ptrOf(args[1])
		if p == nil {
			ex.unsup(pos, "marshal of non-pointer value")
			return ex.fresh("bz", "Bytes")
		}
		v := bs.tm(bs.load(p, pos), s, pos)
		return ex.define("bz", Term{"(enc_" + s + " " + v.S + ")", "Bytes"})
	}
	// MustUnmarshalBinaryBare(bz, ptr)
	bz := bs.tm(args[1], "Bytes", pos)
	p, s := ptrOf(args[2])
	if p == nil {
		ex.unsup(pos, "unmarshal into non-pointer value")
		return &Tuple{}
	}
	// The generated (gogoproto) Unmarshal the codec calls does not reset its target: bytes fields reuse the previous
	// backing array and fields absent from the wire keep their previous content. "x = dec(bz)" therefore holds only for
	// a target holding the zero value, which is a precondition of the call.
	ex.trusted["codec: Unmarshal into a target holding the zero value yields exactly the decoded record (the generated Unmarshal does not reset its target; that the target is zero is an obligation at every call)"] = true
	if cur, ok := bs.load(p, pos).(Term); ok && cur.Sort == s {
		if z := ex.P.sorts.zeroOf(s); cur.S != z {
			bs.safe("unmarshal-target-holds-the-zero-value", Term{"(= " + cur.S + " " + z + ")", "Bool"}, pos)
		}
	} else {
		ex.unsup(pos, "unmarshal into a target whose content is not modelled")
	}
	bs.store(p, ex.define("dec", Term{"(dec_" + s + " " + bz.S + ")", s}), pos)
	return &Tuple{}
}

func (bs *blockState) iterMethod(name string, args []Val, pos token.Pos) Val {
	fr := bs.fr
	ex := fr.ex
	it, ok := args[0].(*IterVal)
	if !ok {
		ex.unsup(pos, "iterator method on %T", args[0])
		switch name {
		case "Valid":
			return ex.fresh("valid", "Bool")
		case "Key", "Value":
			return ex.fresh("itv", "Bytes")
		}
		return &Tuple{}
	}
	ex.trusted["store iterators: a prefix iterator yields exactly the keys with the prefix present at creation, each once, with the values at creation; deleting visited elements does not disturb it"] = true
	posT := bs.cellTerm(it.pos, pos)
	count := Term{"(itCount " + it.snap.S + " " + it.pfx.S + ")", "Int"}
	key := Term{"(itKey " + it.snap.S + " " + it.pfx.S + " " + posT.S + ")", "Key"}
	valid := and(Term{"(<= 0 " + posT.S + ")", "Bool"}, Term{"(< " + posT.S + " " + count.S + ")", "Bool"})
	switch name {
	case "Valid":
		return valid
	case "Next":
		bs.safe("iter-next", valid, pos)
		bs.st.cells[it.pos] = ex.define("itpos", Term{"(+ " + posT.S + " 1)", "Int"})
		return &Tuple{}
	case "Key":
		bs.safe("iter-key", valid, pos)
		return ex.define("itkey", Term{"(kbytes " + key.S + ")", "Bytes"})
	case "Value":
		bs.safe("iter-value", valid, pos)
		return ex.define("itval", Term{"(select " + it.snap.S + " " + key.S + ")", "Bytes"})
	}
	return &Tuple{}
}

func (bs *blockState) native(name string, args []Val, resType types.Type, pos token.Pos) Val {
	fr := bs.fr
	ex := fr.ex
	switch name {
	case "github.com/cosmos/cosmos-sdk/types.KVStorePrefixIterator":
		pfxBytes := bs.tm(args[1], "Bytes", pos)
		c := ex.newCell("itpos", "Int")
		bs.st.cells[c] = intLit(0)
		return &IterVal{snap: bs.st.glob["raw"], pfx: ex.define("pfx", Term{"(pfxOf " + pfxBytes.S + ")", "Prefix"}), pos: c}
	case "(github.com/cosmos/cosmos-sdk/x/params/types.Subspace).Get":
		// Subspace.Get(ctx, key, ptr): the parameter registered under key. The key must be one of the package-level key variables;
		// which Params field it stands for is read from (*Params).ParamSetPairs (scanParamPairs), not from its name.
		ex.trusted["params subspace: Get(ctx, key, ptr) stores the value of the field that (*Params).ParamSetPairs registers under key (wiring read from the syntax each run); the parameters are fixed along a history and satisfy Params.Validate (A6)"] = true
		field := ""
		if cc := bs.curCall; cc != nil && len(cc.Args) == 4 {
			if u, ok := cc.Args[2].(*ssa.UnOp); ok {
				if g, ok := u.X.(*ssa.Global); ok {
					field = ex.P.paramKeys[g.Pkg.Pkg.Path()+"."+g.Name()]
				}
			}
		}
		var ptr *Ptr
		if bx, ok := args[3].(*Boxed); ok {
			ptr, _ = bx.val.(*Ptr)
		}
		if field == "" || ptr == nil || ptr.cell == nil {
			ex.unsup(pos, "Subspace.Get with a key that is not a registered parameter key variable, or into an unmodelled target")
			return &Tuple{}
		}
		si := ex.P.sig.Structs["Params"]
		for k, f := range si.Fields {
			if f.Name == field {
				if f.Sort != ptr.cell.sort {
					ex.unsup(pos, "Subspace.Get: parameter %s has sort %s, the target %s", field, f.Sort, ptr.cell.sort)
					return &Tuple{}
				}
				bs.store(ptr, Term{selOf(si, k, "params"), f.Sort}, pos)
				return &Tuple{}
			}
		}
		ex.unsup(pos, "Subspace.Get: no field %s in Params", field)
		return &Tuple{}
	case "(encoding/binary.bigEndian).PutUint64", "(encoding/binary.bigEndian).PutUint16":
		n, enc := 8, "be64"
		if strings.HasSuffix(name, "16") {
			n, enc = 2, "be16"
		}
		ex.trusted["encoding/binary.BigEndian: PutUintN writes the N/8-byte big-endian encoding beN(v); UintN is its inverse"] = true
		br, ok := args[1].(*BytesRef)
		if !ok {
			ex.unsup(pos, "PutUint on a byte slice that is not a local buffer")
			return &Tuple{}
		}
		v := bs.tm(args[2], "Int", pos)
		bs.safe("putuint-len", Term{fmt.Sprintf("(<= %d %s)", n, br.len.S), "Bool"}, pos)
		content := bs.cellTerm(br.cell, pos)
		bs.st.cells[br.cell] = ex.define("buf", Term{fmt.Sprintf("(bsplice %s %s (%s %s))", content.S, br.off.S, enc, v.S), "Bytes"})
		return &Tuple{}
	case "(encoding/binary.bigEndian).Uint64", "(encoding/binary.bigEndian).Uint16":
		n, dec := 8, "be64dec"
		if strings.HasSuffix(name, "16") {
			n, dec = 2, "be16dec"
		}
		ex.trusted["encoding/binary.BigEndian: PutUintN writes the N/8-byte big-endian encoding beN(v); UintN is its inverse"] = true
		b := bs.tm(args[1], "Bytes", pos)
		bs.safe("uint-len", Term{fmt.Sprintf("(<= %d (blen %s))", n, b.S), "Bool"}, pos)
		return ex.define("u", Term{fmt.Sprintf("(%s (bslice %s 0 %d))", dec, b.S, n), "Int"})
	}
	switch name {
	case "(*github.com/cosmos/cosmos-sdk/codec.LegacyAmino).UnmarshalJSON":
		// JSON decoding of query parameters: a deterministic function of the bytes (legacy amino JSON codec assumed)
		ex.trusted["legacy amino JSON: UnmarshalJSON is a deterministic function jsonDec_T of the bytes; MarshalJSONIndent is a deterministic function jsonEnc_T of the value"] = true
		bz := bs.tm(args[1], "Bytes", pos)
		if bx, ok := args[2].(*Boxed); ok {
			if ptr, ok := bx.val.(*Ptr); ok {
				if pt, ok := bx.typ.Underlying().(*types.Pointer); ok {
					s := ex.P.sorts.sortOf(pt.Elem())
					fn := "jsonDec_" + sanitize(s)
					if _, ok := ex.P.sig.Funs[fn]; !ok {
						ex.P.sig.Funs[fn] = &FunSig{Args: []string{"Bytes"}, Ret: s}
						ex.P.sorts.decls = append(ex.P.sorts.decls, fmt.Sprintf("(declare-fun %s (Bytes) %s)", fn, s))
					}
					v := Term{"(" + fn + " " + bz.S + ")", s}
					if r := ex.P.rangeFact(v, pt.Elem()); r.S != "true" {
						ex.emit("(assert %s)", r.S)
					}
					bs.store(ptr, v, pos)
					return ex.fresh("jsonerr", "Err")
				}
			}
		}
		ex.unsup(pos, "UnmarshalJSON into an unsupported target")
		return ex.fresh("jsonerr", "Err")
	case "github.com/cosmos/cosmos-sdk/codec.MarshalJSONIndent":
		ex.trusted["legacy amino JSON: UnmarshalJSON is a deterministic function jsonDec_T of the bytes; MarshalJSONIndent is a deterministic function jsonEnc_T of the value"] = true
		v := bs.tm(args[1], "", pos)
		fn := "jsonEnc_" + sanitize(v.Sort)
		if _, ok := ex.P.sig.Funs[fn]; !ok {
			ex.P.sig.Funs[fn] = &FunSig{Args: []string{v.Sort}, Ret: "Bytes"}
			ex.P.sorts.decls = append(ex.P.sorts.decls, fmt.Sprintf("(declare-fun %s (%s) Bytes)", fn, v.Sort))
		}
		return &Tuple{[]Val{ex.define("json", Term{"(" + fn + " " + v.S + ")", "Bytes"}), ex.fresh("jsonerr", "Err")}}
	}
	ex.unsup(pos, "native %s not implemented", name)
	return bs.freshResults(resType, pos)
}

func (bs *blockState) builtin(b *ssa.Builtin, cc *ssa.CallCommon, resType types.Type, pos token.Pos) Val {
	fr := bs.fr
	ex := fr.ex
	switch b.Name() {
	case "len":
		v := fr.value(cc.Args[0])
		if br, ok := v.(*BytesRef); ok {
			return br.len
		}
		if _, isMap := cc.Args[0].Type().Underlying().(*types.Map); isMap {
			f := ex.fresh("maplen", "Int")
			ex.emit("(assert (<= 0 %s))", f.S)
			return f
		}
		t := bs.tm(v, "", pos)
		l, err := lenTerm(t)
		if err != nil {
			ex.unsup(pos, "%v", err)
			return ex.fresh("len", "Int")
		}
		return l
	case "cap":
		f := ex.fresh("cap", "Int")
		return f
	case "append":
		// append(x[i:k], ...) writes into the spare capacity of x: the elements of x after k are overwritten, which value
		// semantics cannot express (a three-index slice x[i:k:k] has no spare capacity and is fine)
		if sl, ok := stripChange(cc.Args[0]).(*ssa.Slice); ok && sl.High != nil && sl.Max == nil {
			ex.unsup(pos, "append to a sub-slice (x[i:k]) may overwrite the elements of x after k (slice aliasing not modelled)")
		}
		a := fr.value(cc.Args[0])
		so := ex.P.sorts.sortOf(cc.Args[0].Type())
		at := bs.tm(a, so, pos)
		bv := fr.value(cc.Args[1])
		if so == "Bytes" {
			var bt Term
			if t, ok := bv.(Term); ok && t.Sort == "Str" {
				bt = Term{"(s2b " + t.S + ")", "Bytes"}
			} else {
				bt = bs.tm(bv, "Bytes", pos)
			}
			return ex.define("app", Term{"(bconcat " + at.S + " " + bt.S + ")", "Bytes"})
		}
		bt := bs.tm(bv, so, pos)
		_, sa := sortParts(so)
		es := sa[0]
		// single-element append (the common varargs shape)
		if strings.HasPrefix(bt.S, "(mkSlice 1 ") {
			elem := Term{"(select (sarr " + bt.S + ") 0)", es}
			elem = ex.define("appelem", elem)
			return ex.define("app", Term{fmt.Sprintf("(mkSlice (+ (slen %s) 1) (store (sarr %s) (slen %s) %s))", at.S, at.S, at.S, elem.S), so})
		}
		fnName := "sappend_" + sanitize(es)
		if _, ok := ex.P.sig.Funs[fnName]; !ok {
			ex.P.sig.Funs[fnName] = &FunSig{Args: []string{so, so}, Ret: so}
			ex.P.sorts.decls = append(ex.P.sorts.decls,
				fmt.Sprintf("(declare-fun %s (%s %s) %s)", fnName, so, so, so),
				fmt.Sprintf("(assert (forall ((a %s) (b %s)) (! (= (slen (%s a b)) (+ (slen a) (slen b))) :pattern ((%s a b)))))", so, so, fnName, fnName),
				fmt.Sprintf("(assert (forall ((a %s) (b %s) (i Int)) (! (= (select (sarr (%s a b)) i) (ite (< i (slen a)) (select (sarr a) i) (select (sarr b) (- i (slen a))))) :pattern ((select (sarr (%s a b)) i)))))", so, so, fnName, fnName))
		}
		return ex.define("app", Term{"(" + fnName + " " + at.S + " " + bt.S + ")", so})
	case "copy":
		dst := fr.value(cc.Args[0])
		br, ok := dst.(*BytesRef)
		if !ok {
			ex.unsup(pos, "copy into a slice that is not a local byte buffer")
			return ex.fresh("copied", "Int")
		}
		src := bs.tm(fr.value(cc.Args[1]), "Bytes", pos)
		if t, ok := fr.value(cc.Args[1]).(Term); ok && t.Sort == "Str" {
			src = Term{"(s2b " + t.S + ")", "Bytes"}
		}
		content := bs.cellTerm(br.cell, pos)
		n := ex.define("ncopy", Term{fmt.Sprintf("(ite (< (blen %s) %s) (blen %s) %s)", src.S, br.len.S, src.S, br.len.S), "Int"})
		bs.st.cells[br.cell] = ex.define("buf", Term{fmt.Sprintf("(bsplice %s %s (bslice %s 0 %s))", content.S, br.off.S, src.S, n.S), "Bytes"})
		return n
	case "delete", "print", "println":
		return &Tuple{}
	}
	ex.unsup(pos, "builtin %s", b.Name())
	return bs.freshResults(resType, pos)
}

// mapFuncs declares (on demand) the membership and lookup functions of a Go map sort.
func (p *Program) mapFuncs(mapSort, keySort, elemSort string) (string, string) {
	has, get := "mapHas_"+sanitize(mapSort), "mapGet_"+sanitize(mapSort)
	if _, ok := p.sig.Funs[has]; !ok {
		p.sig.Funs[has] = &FunSig{Args: []string{mapSort, keySort}, Ret: "Bool"}
		p.sig.Funs[get] = &FunSig{Args: []string{mapSort, keySort}, Ret: elemSort}
		p.sorts.decls = append(p.sorts.decls, fmt.Sprintf("(declare-fun %s (%s %s) Bool)", has, mapSort, keySort), fmt.Sprintf("(declare-fun %s (%s %s) %s)", get, mapSort, keySort, elemSort))
	}
	return has, get
}

func stripChange(v ssa.Value) ssa.Value {
	for {
		if c, ok := v.(*ssa.ChangeType); ok {
			v = c.X
			continue
		}
		return v
	}
}
