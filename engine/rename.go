package main

// Rename-robust contracts. A contract names parameters, results and locals of the function (and of the callees whose loops it
// annotates, and of the enclosing function of a closure) as they were called when the contract was written. The comment file
// records, per function, the table "name = declared type # ordinal among the variables of that type, in declaration order"
// ("//@ vars <Func>: ..." lines, written by `govc annotate`). When the source is later edited so that a variable is renamed,
// the variable with the same type and ordinal is found under its new name and the contract's old name is an alias for it.
// (Reordering declarations of equally typed variables defeats this; the proof then fails rather than passes.)

import (
	"fmt"
	"go/ast"
	"go/token"
	"go/types"
	"os"
	"regexp"
	"sort"
	"strings"

	"golang.org/x/tools/go/packages"
	"golang.org/x/tools/go/ssa"
)

type varEntry struct {
	Name string
	Type string
	Ord  int
}

func (p *Program) pkgOf(fn *ssa.Function) *packages.Package {
	if fn == nil {
		return nil
	}
	root := fn
	for root.Parent() != nil {
		root = root.Parent()
	}
	if root.Pkg == nil {
		return nil
	}
	for _, pk := range p.pkgs {
		if pk.Types == root.Pkg.Pkg {
			return pk
		}
	}
	return nil
}

// funcVars lists the variables declared by fn itself (parameters, named results, locals; not those of nested function literals),
// in source order, each with its ordinal among the variables of the same declared type.
func (p *Program) funcVars(fn *ssa.Function) []varEntry {
	pk := p.pkgOf(fn)
	node := fn.Syntax()
	if pk == nil || node == nil {
		return nil
	}
	type item struct {
		pos token.Pos
		v   *types.Var
	}
	var items []item
	seen := map[*types.Var]bool{}
	var walk func(n ast.Node, top bool)
	walk = func(n ast.Node, top bool) {
		ast.Inspect(n, func(m ast.Node) bool {
			if m == nil {
				return false
			}
			if fl, ok := m.(*ast.FuncLit); ok && m != node {
				_ = fl
				return false // variables of nested closures belong to them
			}
			if id, ok := m.(*ast.Ident); ok {
				if obj, ok := pk.TypesInfo.Defs[id].(*types.Var); ok && obj != nil && !obj.IsField() && id.Name != "_" && !seen[obj] {
					seen[obj] = true
					items = append(items, item{id.Pos(), obj})
				}
			}
			return true
		})
	}
	walk(node, true)
	sort.Slice(items, func(i, j int) bool { return items[i].pos < items[j].pos })
	count := map[string]int{}
	var out []varEntry
	for _, it := range items {
		ts := types.TypeString(it.v.Type(), nil)
		if _, isFunc := it.v.Type().Underlying().(*types.Signature); isFunc {
			ts = "func" // parameter names inside a function type would make the key depend on other renames
		}
		out = append(out, varEntry{Name: it.v.Name(), Type: ts, Ord: count[ts]})
		count[ts]++
	}
	return out
}

// funcsOfContract: the functions whose variables a contract may name: the function, its enclosing functions (closures see their
// captured variables) and the callees whose loops it annotates ("loop Callee.k invariant ...").
func (p *Program) funcsOfContract(c *Contract) []*ssa.Function {
	fn := p.funcs[c.Func]
	if fn == nil {
		return nil
	}
	var out []*ssa.Function
	for f := fn; f != nil; f = f.Parent() {
		out = append(out, f)
	}
	names := map[string]bool{}
	for key := range c.Loops {
		if i := strings.LastIndex(key, "."); i > 0 {
			names[key[:i]] = true
		}
	}
	if len(names) > 0 {
		for _, f := range p.funcs {
			if names[f.Name()] && f.Pkg != nil && strings.HasPrefix(f.Pkg.Pkg.Path(), modPath) {
				out = append(out, f)
			}
		}
	}
	sort.SliceStable(out[1:], func(i, j int) bool { return out[1+i].String() < out[1+j].String() })
	return out
}

func encodeVars(vs []varEntry) string {
	var parts []string
	for _, v := range vs {
		parts = append(parts, fmt.Sprintf("%s=%s#%d", v.Name, strings.ReplaceAll(v.Type, " ", "·"), v.Ord))
	}
	return strings.Join(parts, " ")
}

func decodeVars(s string) []varEntry {
	var out []varEntry
	for _, f := range strings.Fields(s) {
		i := strings.Index(f, "=")
		j := strings.LastIndex(f, "#")
		if i <= 0 || j <= i {
			continue
		}
		var ord int
		fmt.Sscanf(f[j+1:], "%d", &ord)
		out = append(out, varEntry{Name: f[:i], Type: strings.ReplaceAll(f[i+1:j], "·", " "), Ord: ord})
	}
	return out
}

// computeRenames fills c.Ren (old name -> current name) from the recorded tables and the current source.
func (p *Program) computeRenames(c *Contract) {
	c.Ren = map[string]string{}
	if len(c.Vars) == 0 {
		return
	}
	for _, f := range p.funcsOfContract(c) {
		rec, ok := c.Vars[shortFuncName(f)]
		if !ok {
			continue
		}
		cur := map[string]string{} // "type#ord" -> current name
		curNames := map[string]bool{}
		for _, v := range p.funcVars(f) {
			cur[fmt.Sprintf("%s#%d", v.Type, v.Ord)] = v.Name
			curNames[v.Name] = true
		}
		for _, v := range rec {
			now, ok := cur[fmt.Sprintf("%s#%d", v.Type, v.Ord)]
			if !ok || now == v.Name {
				continue
			}
			if curNames[v.Name] {
				continue // the old name still exists (declarations were reordered or types changed): do not guess
			}
			if _, dup := c.Ren[v.Name]; !dup {
				c.Ren[v.Name] = now
			}
		}
	}
}

var affixRe = regexp.MustCompile(`^((?:outer_)*)(.*?)((?:_pos|_snap|_pfx)?)$`)

// renamed resolves a contract identifier that is not bound under its recorded name.
func (e *Env) renamed(name string) (Term, bool) {
	if len(e.Ren) == 0 {
		return Term{}, false
	}
	m := affixRe.FindStringSubmatch(name)
	if m == nil {
		return Term{}, false
	}
	if now, ok := e.Ren[m[2]]; ok {
		if t, ok := e.Vars[m[1]+now+m[3]]; ok {
			return t, true
		}
	}
	return Term{}, false
}

// annotate rewrites the contract files of dir (the mirror) so that every "//@ func" block carries the current "//@ vars" tables.
func (p *Program) annotate(files []string) error {
	for _, path := range files {
		b, err := os.ReadFile(path)
		if err != nil {
			return err
		}
		lines := strings.Split(string(b), "\n")
		var out []string
		for i := 0; i < len(lines); i++ {
			l := lines[i]
			if strings.HasPrefix(l, "//@ vars ") {
				continue // regenerated below
			}
			out = append(out, l)
			if strings.HasPrefix(l, "//@ func ") {
				name := strings.TrimSpace(strings.TrimPrefix(l, "//@ func "))
				var c *Contract
				for _, cc := range p.contracts {
					if cc.Short == name && cc.File == path {
						c = cc
					}
				}
				if c == nil {
					continue
				}
				for _, f := range p.funcsOfContract(c) {
					vs := p.funcVars(f)
					if len(vs) > 0 {
						out = append(out, "//@ vars "+shortFuncName(f)+": "+encodeVars(vs))
					}
				}
			}
		}
		if err := os.WriteFile(path, []byte(strings.Join(out, "\n")), 0o644); err != nil {
			return err
		}
	}
	return nil
}
