#!/usr/bin/env python3
# dev tool: print an unsat core of a query (named top-level assertions)
import sys,subprocess
src=open(sys.argv[1]).read()
forms=[];depth=0;start=None;i=0;n=len(src)
while i<n:
    c=src[i]
    if c==';':
        while i<n and src[i]!='\n': i+=1
        continue
    if c=='"':
        i+=1
        while i<n and src[i]!='"': i+=1
    elif c=='(':
        if depth==0: start=i
        depth+=1
    elif c==')':
        depth-=1
        if depth==0: forms.append(src[start:i+1])
    i+=1
out=['(set-option :produce-unsat-cores true)'];names={}
k=0
for f in forms:
    if f.startswith('(assert'):
        body=f[len('(assert'):-1].strip()
        k+=1;names['a%d'%k]=body
        out.append('(assert (! %s :named a%d))'%(body,k))
    elif f.startswith('(get-value') or f.startswith('(set-option :produce-models'): pass
    else: out.append(f)
    if f.startswith('(check-sat'): out.append('(get-unsat-core)')
open('/tmp/core.smt2','w').write('\n'.join(out))
r=subprocess.run(['z3-new','-T:30','/tmp/core.smt2'],capture_output=True,text=True).stdout
print(r.split('\n')[0])
for nm in r.replace('(',' ').replace(')',' ').split():
    if nm in names: print(nm, names[nm][:400])
