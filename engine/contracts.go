package main

import (
	"bufio"
	"fmt"
	"os"
	"regexp"
	"strings"
)

// Clause is one requires/ensures/invariant clause.
type Clause struct {
	Label string
	Props []string // property tags ([C03,C05]); empty = the function's default
	Src   string
	E     Expr
	Line  int
	File  string
	Assumed   bool // "assumes": postcondition used by callers but not checked against the body (trusted clause, listed)
	CheckOnly bool // "checks": a postcondition verified against the body but NOT assumed at call sites (for clauses expected to fail as known findings: a false clause must not become a hypothesis of the callers)
	OnSuccess bool // "preserves": as a postcondition it is only required when the function returns a nil error (A1)
}

type LoopSpec struct {
	Key      string // "0", "GetEarnedFees.0"
	Invs     []*Clause
	Modifies []string // optional explicit set of state components / cells
	HasMod   bool
}

// Contract is the specification of one function (in-repo or library) or a lemma.
type Contract struct {
	Func     string // full SSA name, e.g. (github.com/irismod/service/keeper.Keeper).RefundDeposit
	Short    string
	Kind     string // func | lib | lemma
	Params   []string
	ParamSorts []string // for lemmas
	Results  []string // optional result names for lib specs
	Props    []string
	Theory   []string
	Requires []*Clause
	Ensures  []*Clause
	Modifies []string
	Loops    map[string]*LoopSpec
	Returns  *Clause // lib: result defined as a term
	Inline   map[string]bool
	NoInline map[string]bool
	Pure     bool
	MayPanic bool
	Trusted  bool // contract assumed, body not verified (listed in evidence)
	Fresh    bool // lib: unknown pure function, result unconstrained
	File     string
	Line     int
	Uses     []string // lemma: names of earlier lemmas used as hypotheses
	Witnesses []*Witness // existentially quantified ghost values of the postcondition
	Writes   []string   // lib: pointer parameters whose pointee is overwritten with an unconstrained value
	Vars     map[string][]varEntry // recorded variable tables ("//@ vars F: name=Type#k ..."), see rename.go
	Ren      map[string]string     // contract name -> current source name, for variables renamed since the contract was written
	After    map[string][]string // post label -> earlier post labels assumed (at the same exit) when proving it
	Applies  []*Clause  // lemma: explicit instances of earlier lemmas, e.g. KVol_tail(s, bech32(p), s2, bech32(p2))
	Hints    []*Clause  // lemma: terms mentioned so that axiom patterns can fire (no new facts)
}

// Witness names a ghost value: the prover supplies it as an expression over the function's locals,
// callers only learn that some value of the sort satisfies the postconditions.
type Witness struct {
	Name, Sort string
	E    Expr
	Src  string
}

var clauseKW = map[string]bool{"func": true, "lib": true, "lemma": true, "props": true, "theory": true, "requires": true, "ensures": true, "preserves": true,
	"modifies": true, "loop": true, "returns": true, "inline": true, "noinline": true, "pure": true, "maypanic": true, "trusted": true,
	"results": true, "fresh": true, "uses": true, "end": true, "witness": true, "hint": true, "assumes": true, "checks": true, "writes": true, "apply": true, "after": true, "vars": true}

var labelRe = regexp.MustCompile(`^\s*(\[[A-Za-z0-9_, ]+\])?\s*([A-Za-z_][A-Za-z0-9_]*)\s*:([^:=].*|$)`)
var tagOnlyRe = regexp.MustCompile(`^\s*\[([A-Za-z0-9_, ]+)\]\s*(.*)$`)

func parseClause(text, file string, line int) (*Clause, error) {
	c := &Clause{File: file, Line: line}
	rest := text
	if m := labelRe.FindStringSubmatch(rest); m != nil {
		if m[1] != "" {
			for _, p := range strings.Split(strings.Trim(m[1], "[]"), ",") {
				c.Props = append(c.Props, strings.TrimSpace(p))
			}
		}
		c.Label = m[2]
		rest = m[3]
	} else if m := tagOnlyRe.FindStringSubmatch(rest); m != nil {
		for _, p := range strings.Split(m[1], ",") {
			c.Props = append(c.Props, strings.TrimSpace(p))
		}
		rest = m[2]
	}
	c.Src = strings.TrimSpace(rest)
	e, err := parseExpr(c.Src)
	if err != nil {
		return nil, fmt.Errorf("%s:%d: %v", file, line, err)
	}
	c.E = e
	return c, nil
}

// parseContractFile reads //@ blocks from a file. pkgPath qualifies unqualified func references.
func parseContractFile(path, pkgPath string) ([]*Contract, error) {
	f, err := os.Open(path)
	if err != nil {
		return nil, err
	}
	defer f.Close()
	type rawClause struct {
		kw   string
		text string
		line int
	}
	var raws []rawClause
	sc := bufio.NewScanner(f)
	sc.Buffer(make([]byte, 1<<20), 1<<20)
	ln := 0
	for sc.Scan() {
		ln++
		l := strings.TrimSpace(sc.Text())
		if !strings.HasPrefix(l, "//@") {
			continue
		}
		l = strings.TrimSpace(strings.TrimPrefix(l, "//@"))
		if l == "" || strings.HasPrefix(l, "#") {
			continue
		}
		w := l
		rest := ""
		if i := strings.IndexAny(l, " \t"); i >= 0 {
			w, rest = l[:i], strings.TrimSpace(l[i+1:])
		}
		if clauseKW[w] {
			raws = append(raws, rawClause{w, rest, ln})
		} else {
			if len(raws) == 0 {
				return nil, fmt.Errorf("%s:%d: continuation without clause", path, ln)
			}
			raws[len(raws)-1].text += " " + l
		}
	}
	var out []*Contract
	var cur *Contract
	for _, r := range raws {
		switch r.kw {
		case "func", "lib", "lemma":
			cur = &Contract{Kind: r.kw, File: path, Line: r.line, Loops: map[string]*LoopSpec{}, Inline: map[string]bool{}, NoInline: map[string]bool{}}
			name := r.text
			if strings.HasPrefix(name, "dynamic:") {
				// call through a function value of this type: the whole text is the key
			} else if i := strings.Index(name, "("); r.kw != "func" && i > 0 && strings.HasSuffix(name, ")") && !strings.HasPrefix(name, "(") {
				// name(params)
				ps := name[i+1 : len(name)-1]
				name = name[:i]
				cur.Params, cur.ParamSorts = splitParams(ps)
			} else if r.kw != "func" && strings.HasPrefix(name, "(") {
				// (recv).Method(params)
				j := strings.LastIndex(name, "(")
				if j > 0 && strings.HasSuffix(name, ")") && strings.Contains(name[:j], ").") {
					cur.Params, cur.ParamSorts = splitParams(name[j+1 : len(name)-1])
					name = name[:j]
				}
			}
			name = strings.TrimSpace(name)
			cur.Short = name
			if r.kw == "func" {
				cur.Func = qualifyFunc(name, pkgPath)
			} else {
				cur.Func = name
			}
			out = append(out, cur)
			continue
		}
		if cur == nil {
			return nil, fmt.Errorf("%s:%d: clause outside a block", path, r.line)
		}
		switch r.kw {
		case "end":
			cur = nil
		case "props":
			cur.Props = append(cur.Props, strings.Fields(strings.ReplaceAll(r.text, ",", " "))...)
		case "theory":
			cur.Theory = append(cur.Theory, strings.Fields(strings.ReplaceAll(r.text, ",", " "))...)
		case "uses":
			cur.Uses = append(cur.Uses, strings.Fields(strings.ReplaceAll(r.text, ",", " "))...)
		case "results":
			cur.Results = strings.Fields(strings.ReplaceAll(r.text, ",", " "))
		case "modifies":
			cur.Modifies = append(cur.Modifies, strings.Fields(strings.ReplaceAll(r.text, ",", " "))...)
		case "inline":
			for _, n := range strings.Fields(strings.ReplaceAll(r.text, ",", " ")) {
				cur.Inline[n] = true
			}
		case "noinline":
			for _, n := range strings.Fields(strings.ReplaceAll(r.text, ",", " ")) {
				cur.NoInline[n] = true
			}
		case "witness":
			// witness name Sort := expr
			i := strings.Index(r.text, ":=")
			if i < 0 {
				return nil, fmt.Errorf("%s:%d: malformed witness", path, r.line)
			}
			head := strings.TrimSpace(r.text[:i])
			j := strings.IndexAny(head, " \t")
			if j < 0 {
				return nil, fmt.Errorf("%s:%d: witness needs a sort", path, r.line)
			}
			e, err := parseExpr(strings.TrimSpace(r.text[i+2:]))
			if err != nil {
				return nil, fmt.Errorf("%s:%d: %v", path, r.line, err)
			}
			cur.Witnesses = append(cur.Witnesses, &Witness{Name: head[:j], Sort: strings.TrimSpace(head[j:]), E: e, Src: r.text})
		case "vars":
			i := strings.Index(r.text, ":")
			if i <= 0 {
				return nil, fmt.Errorf("%s:%d: malformed vars clause", path, r.line)
			}
			if cur.Vars == nil {
				cur.Vars = map[string][]varEntry{}
			}
			cur.Vars[strings.TrimSpace(r.text[:i])] = decodeVars(r.text[i+1:])
		case "after":
			// "after <post> assume <post> <post> ...": the named posts, stated earlier and proved on their own, are lemmas for this one
			fs := strings.Fields(strings.ReplaceAll(r.text, ",", " "))
			if len(fs) < 3 || fs[1] != "assume" {
				return nil, fmt.Errorf("%s:%d: malformed after clause", path, r.line)
			}
			if cur.After == nil {
				cur.After = map[string][]string{}
			}
			cur.After[fs[0]] = append(cur.After[fs[0]], fs[2:]...)
		case "apply":
			c, err := parseClause(r.text, path, r.line)
			if err != nil {
				return nil, err
			}
			cur.Applies = append(cur.Applies, c)
		case "hint":
			c, err := parseClause(r.text, path, r.line)
			if err != nil {
				return nil, err
			}
			cur.Hints = append(cur.Hints, c)
		case "pure":
			cur.Pure = true
		case "maypanic":
			cur.MayPanic = true
		case "trusted":
			cur.Trusted = true
		case "fresh":
			cur.Fresh = true
		case "writes":
			cur.Writes = append(cur.Writes, strings.Fields(strings.ReplaceAll(r.text, ",", " "))...)
		case "assumes":
			c, err := parseClause(r.text, path, r.line)
			if err != nil {
				return nil, err
			}
			if c.Label == "" {
				c.Label = fmt.Sprintf("a%d", len(cur.Ensures))
			}
			c.Assumed = true
			cur.Ensures = append(cur.Ensures, c)
		case "checks":
			c, err := parseClause(r.text, path, r.line)
			if err != nil {
				return nil, err
			}
			if c.Label == "" {
				c.Label = fmt.Sprintf("k%d", len(cur.Ensures))
			}
			c.CheckOnly = true
			cur.Ensures = append(cur.Ensures, c)
		case "requires", "ensures", "returns", "preserves":
			c, err := parseClause(r.text, path, r.line)
			if err != nil {
				return nil, err
			}
			switch r.kw {
			case "preserves":
				if c.Label == "" {
					c.Label = fmt.Sprintf("p%d", len(cur.Requires))
				}
				cur.Requires = append(cur.Requires, c)
				c2 := *c
				c2.Label = c.Label + "_kept"
				c2.OnSuccess = true
				cur.Ensures = append(cur.Ensures, &c2)
			case "requires":
				if c.Label == "" {
					c.Label = fmt.Sprintf("r%d", len(cur.Requires))
				}
				cur.Requires = append(cur.Requires, c)
			case "ensures":
				if c.Label == "" {
					c.Label = fmt.Sprintf("e%d", len(cur.Ensures))
				}
				cur.Ensures = append(cur.Ensures, c)
			default:
				cur.Returns = c
			}
		case "loop":
			fs := strings.SplitN(r.text, " ", 3)
			if len(fs) < 3 {
				return nil, fmt.Errorf("%s:%d: malformed loop clause", path, r.line)
			}
			ls := cur.Loops[fs[0]]
			if ls == nil {
				ls = &LoopSpec{Key: fs[0]}
				cur.Loops[fs[0]] = ls
			}
			switch fs[1] {
			case "invariant":
				c, err := parseClause(fs[2], path, r.line)
				if err != nil {
					return nil, err
				}
				if c.Label == "" {
					c.Label = fmt.Sprintf("i%d", len(ls.Invs))
				}
				ls.Invs = append(ls.Invs, c)
			case "modifies":
				ls.HasMod = true
				ls.Modifies = append(ls.Modifies, strings.Fields(strings.ReplaceAll(fs[2], ",", " "))...)
			default:
				return nil, fmt.Errorf("%s:%d: unknown loop clause %q", path, r.line, fs[1])
			}
		}
	}
	return out, nil
}

func splitParams(ps string) (names, sorts []string) {
	ps = strings.TrimSpace(ps)
	if ps == "" {
		return nil, nil
	}
	depth := 0
	start := 0
	var parts []string
	for i, c := range ps {
		switch c {
		case '(':
			depth++
		case ')':
			depth--
		case ',':
			if depth == 0 {
				parts = append(parts, ps[start:i])
				start = i + 1
			}
		}
	}
	parts = append(parts, ps[start:])
	for _, p := range parts {
		p = strings.TrimSpace(p)
		fs := strings.SplitN(p, " ", 2)
		names = append(names, fs[0])
		if len(fs) == 2 {
			sorts = append(sorts, strings.TrimSpace(fs[1]))
		} else {
			sorts = append(sorts, "")
		}
	}
	return
}

// qualifyFunc turns "(Keeper).Foo" / "Foo" / "EndBlocker$2" into the full go/ssa name.
func qualifyFunc(name, pkgPath string) string {
	if strings.Contains(name, "/") {
		return name
	}
	if strings.HasPrefix(name, "(") {
		i := strings.Index(name, ")")
		recv := name[1:i]
		ptr := ""
		if strings.HasPrefix(recv, "*") {
			ptr = "*"
			recv = recv[1:]
		}
		return "(" + ptr + pkgPath + "." + recv + ")" + name[i+1:]
	}
	return pkgPath + "." + name
}
