#!/bin/bash
# dev helper: run govc on a scratch copy of /repo with patches applied.  usage: patchrun.sh "<patch files>" <govc args...>
D=/root/scratch-patch-$$
rm -rf $D; mkdir -p $D; rsync -a --exclude .git /repo/ $D/
for p in $1; do (cd $D && patch -p1 -s < $p) || { echo "patch $p failed"; rm -rf $D; exit 9; }; done
shift
(cd $D && GOFLAGS=-mod=mod GOPROXY=off GOSUMDB=off GOTOOLCHAIN=local go build ./... ) || { echo "patched tree does not compile"; rm -rf $D; exit 8; }
GOVC_CONTRACTS=${GOVC_CONTRACTS:-mirror} /verif/bin/govc "$@" -repo $D
rc=$?
rm -rf $D
exit $rc
