package main

import (
	"fmt"
	"strings"
)

// SExp is a parsed SMT-LIB s-expression: either an atom or a list.
type SExp struct {
	Atom string
	List []*SExp
	IsL  bool
}

func (s *SExp) String() string {
	if !s.IsL {
		return s.Atom
	}
	parts := make([]string, len(s.List))
	for i, c := range s.List {
		parts[i] = c.String()
	}
	return "(" + strings.Join(parts, " ") + ")"
}

func (s *SExp) head() string {
	if s.IsL && len(s.List) > 0 && !s.List[0].IsL {
		return s.List[0].Atom
	}
	return ""
}

// parseSExps parses all top-level forms of an SMT-LIB text (comments start with ';').
func parseSExps(src string) ([]*SExp, error) {
	var stack [][]*SExp
	cur := []*SExp{}
	i := 0
	n := len(src)
	for i < n {
		c := src[i]
		switch {
		case c == ';':
			for i < n && src[i] != '\n' {
				i++
			}
		case c == ' ' || c == '\t' || c == '\n' || c == '\r':
			i++
		case c == '(':
			stack = append(stack, cur)
			cur = []*SExp{}
			i++
		case c == ')':
			if len(stack) == 0 {
				return nil, fmt.Errorf("unbalanced ')' at %d", i)
			}
			l := &SExp{IsL: true, List: cur}
			cur = stack[len(stack)-1]
			stack = stack[:len(stack)-1]
			cur = append(cur, l)
			i++
		case c == '"':
			j := i + 1
			for j < n {
				if src[j] == '"' {
					if j+1 < n && src[j+1] == '"' {
						j += 2
						continue
					}
					break
				}
				j++
			}
			cur = append(cur, &SExp{Atom: src[i : j+1]})
			i = j + 1
		case c == '|':
			j := i + 1
			for j < n && src[j] != '|' {
				j++
			}
			cur = append(cur, &SExp{Atom: src[i : j+1]})
			i = j + 1
		default:
			j := i
			for j < n && !strings.ContainsRune(" \t\r\n();", rune(src[j])) {
				j++
			}
			cur = append(cur, &SExp{Atom: src[i:j]})
			i = j
		}
	}
	if len(stack) != 0 {
		return nil, fmt.Errorf("unbalanced '(' (depth %d at EOF)", len(stack))
	}
	return cur, nil
}

// FunSig is the signature of an SMT function symbol.
type FunSig struct {
	Args []string
	Ret  string
}

// Sig is the table of declared symbols (from the prelude and generated declarations).
type Sig struct {
	Funs    map[string]*FunSig
	Sorts   map[string]bool
	Structs map[string]*StructInfo // datatype sort -> fields (single-constructor records)
	Ctors   map[string]string       // constructor -> datatype sort
}

type FieldInfo struct {
	Name string // Go field name
	Sel  string // SMT selector
	Sort string
}

type StructInfo struct {
	Sort   string
	Ctor   string
	Fields []FieldInfo
}

func newSig() *Sig {
	return &Sig{Funs: map[string]*FunSig{}, Sorts: map[string]bool{"Int": true, "Bool": true}, Structs: map[string]*StructInfo{}, Ctors: map[string]string{}}
}

// addDecls reads SMT-LIB declarations and records their signatures.
func (sg *Sig) addDecls(src string) error {
	forms, err := parseSExps(src)
	if err != nil {
		return err
	}
	for _, f := range forms {
		switch f.head() {
		case "declare-sort":
			sg.Sorts[f.List[1].Atom] = true
		case "define-sort":
			sg.Sorts[f.List[1].Atom] = true
		case "declare-const":
			sg.Funs[f.List[1].Atom] = &FunSig{Ret: f.List[2].String()}
		case "declare-fun":
			fs := &FunSig{Ret: f.List[3].String()}
			for _, a := range f.List[2].List {
				fs.Args = append(fs.Args, a.String())
			}
			sg.Funs[f.List[1].Atom] = fs
		case "define-fun", "define-fun-rec":
			fs := &FunSig{Ret: f.List[3].String()}
			for _, a := range f.List[2].List {
				fs.Args = append(fs.Args, a.List[1].String())
			}
			sg.Funs[f.List[1].Atom] = fs
		case "declare-datatypes":
			names := f.List[1].List
			defs := f.List[2].List
			for i, nm := range names {
				sortName := nm.List[0].Atom
				arity := nm.List[1].Atom
				sg.Sorts[sortName] = true
				def := defs[i]
				if arity != "0" {
					// parametric: (par (T) (ctors...)); selectors are handled specially by the translator
					continue
				}
				for _, c := range def.List {
					if !c.IsL {
						sg.Funs[c.Atom] = &FunSig{Ret: sortName}
						sg.Ctors[c.Atom] = sortName
						continue
					}
					cn := c.List[0].Atom
					fs := &FunSig{Ret: sortName}
					for _, sel := range c.List[1:] {
						fs.Args = append(fs.Args, sel.List[1].String())
						sg.Funs[sel.List[0].Atom] = &FunSig{Args: []string{sortName}, Ret: sel.List[1].String()}
					}
					sg.Funs[cn] = fs
					sg.Ctors[cn] = sortName
					sg.Funs["is-"+cn] = &FunSig{Args: []string{sortName}, Ret: "Bool"}
				}
			}
		}
	}
	return nil
}

// sortParts splits a sort like "(Array Key Bytes)" into head and args.
func sortParts(s string) (string, []string) {
	s = strings.TrimSpace(s)
	if !strings.HasPrefix(s, "(") {
		return s, nil
	}
	fs, err := parseSExps(s)
	if err != nil || len(fs) != 1 || !fs[0].IsL {
		return s, nil
	}
	var args []string
	for _, a := range fs[0].List[1:] {
		args = append(args, a.String())
	}
	return fs[0].List[0].Atom, args
}

// ctorArgs returns the arguments of t if it is syntactically an application of constructor ctor: "(ctor a1 ... an)".
// Used to simplify selector-of-constructor while building record updates, so that chains of updates stay linear in size.
func ctorArgs(t, ctor string, n int) ([]string, bool) {
	if !strings.HasPrefix(t, "("+ctor+" ") || !strings.HasSuffix(t, ")") {
		return nil, false
	}
	body := t[len(ctor)+2 : len(t)-1]
	var out []string
	depth, start := 0, -1
	inBar, inStr := false, false
	for i := 0; i < len(body); i++ {
		c := body[i]
		switch {
		case inBar:
			if c == '|' {
				inBar = false
			}
		case inStr:
			if c == '"' {
				inStr = false
			}
		case c == '|':
			inBar = true
			if start < 0 {
				start = i
			}
		case c == '"':
			inStr = true
			if start < 0 {
				start = i
			}
		case c == '(':
			if start < 0 {
				start = i
			}
			depth++
		case c == ')':
			depth--
			if depth < 0 {
				return nil, false
			}
		case c == ' ' || c == '\n' || c == '\t':
			if depth == 0 && start >= 0 {
				out = append(out, body[start:i])
				start = -1
			}
		default:
			if start < 0 {
				start = i
			}
		}
	}
	if depth != 0 || inBar || inStr {
		return nil, false
	}
	if start >= 0 {
		out = append(out, body[start:])
	}
	if len(out) != n {
		return nil, false
	}
	return out, true
}

// selOf builds (sel t), simplified when t is a constructor application.
func selOf(si *StructInfo, i int, t string) string {
	if args, ok := ctorArgs(t, si.Ctor, len(si.Fields)); ok {
		return args[i]
	}
	return "(" + si.Fields[i].Sel + " " + t + ")"
}
