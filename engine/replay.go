package main

import (
	"encoding/json"
	"fmt"
	"go/types"
	"os"
	"os/exec"
	"path/filepath"
	"regexp"
	"strings"
	"time"

	"golang.org/x/tools/go/ssa"
)

// Replay of solver counterexamples on the real code (DESIGN 3.11).
// Supported: package-level functions of package types whose parameters are integers, booleans, times, decimals
// and the Pricing record (the pricing selectors and validators of C07/C15). For these the model is concrete:
// the arguments are read from the model, the real function is run through `go test -overlay` (nothing is written
// into /repo), and the observed result is substituted into the violated clause, which is then re-checked as a
// ground query. Functions outside this class (stateful keeper code, byte-level code over abstract strings) get
// no replay: the violation is reported with no-failing-input-found.

type replayOutcome struct {
	Attempted bool                   `json:"attempted"`
	Replayed  bool                   `json:"replayed"`
	Inputs    map[string]interface{} `json:"inputs,omitempty"`
	Observed  string                 `json:"observed,omitempty"`
	Note      string                 `json:"note,omitempty"`
	TestFile  string                 `json:"test_file,omitempty"`
}

func replayable(p *Program, fr *FuncResult) (*ssa.Function, bool) {
	if fr.Contract == nil || fr.Contract.Kind != "func" {
		return nil, false
	}
	fn := p.funcs[fr.Contract.Func]
	if fn == nil || fn.Signature.Recv() != nil || fn.Pkg.Pkg.Path() != modPath+"/types" || fn.Parent() != nil {
		return nil, false
	}
	for _, prm := range fn.Params {
		switch prm.Type().String() {
		case "int64", "uint64", "int", "bool", "time.Time", modPath + "/types.Pricing", "github.com/cosmos/cosmos-sdk/types.Dec":
		default:
			return nil, false
		}
	}
	res := fn.Signature.Results()
	if res.Len() != 1 {
		return nil, false
	}
	switch res.At(0).Type().String() {
	case "error", "github.com/cosmos/cosmos-sdk/types.Dec", "bool", "int64", "uint64":
	default:
		return nil, false
	}
	return fn, true
}

var getValRe = regexp.MustCompile(`\(\s*([^\s()]+(?:\s*\([^()]*(?:\([^()]*\)[^()]*)*\))?|\([^()]*(?:\([^()]*(?:\([^()]*\)[^()]*)*\)[^()]*)*\))\s+(\(-\s*\d+\)|-?\d+|true|false)\s*\)`)

// askValues runs z3-new on query+get-value and returns term -> integer/boolean literal.
func askValues(dir, query string, terms []string) (map[string]string, string) {
	q := query
	// strip previous check-sat tail
	if i := strings.LastIndex(q, "(check-sat)"); i >= 0 {
		q = q[:i]
	}
	q += "(check-sat)\n(get-value (" + strings.Join(terms, " ") + "))\n"
	f := filepath.Join(dir, "replay_query.smt2")
	os.WriteFile(f, []byte(q), 0o644)
	out, _ := exec.Command("z3-new", "-T:20", f).CombinedOutput()
	s := string(out)
	first := strings.TrimSpace(strings.SplitN(s, "\n", 2)[0])
	vals := map[string]string{}
	if first != "sat" {
		return vals, first
	}
	body := s[strings.Index(s, "\n")+1:]
	forms, err := parseSExps(body)
	if err != nil || len(forms) == 0 {
		return vals, first
	}
	for _, pair := range forms[0].List {
		if pair.IsL && len(pair.List) == 2 {
			v := pair.List[1].String()
			v = strings.ReplaceAll(v, "(- ", "-")
			v = strings.TrimSuffix(v, ")")
			vals[pair.List[0].String()] = v
		}
	}
	return vals, first
}

// tryReplay attempts to replay a failed obligation on the real code.
func tryReplay(p *Program, oc *oblOutcome, runDir string) *replayOutcome {
	fn, ok := replayable(p, oc.Func)
	if !ok {
		return nil
	}
	ro := &replayOutcome{Attempted: true, Inputs: map[string]interface{}{}}
	// the counterexample is searched (and later re-checked) with the recursive definitions of the pricing selectors,
	// for which the solvers produce concrete models
	recTheories := []string{}
	for _, th := range oc.Func.Theories {
		if th == "pricing" {
			th = "pricingrec"
		}
		recTheories = append(recTheories, th)
	}
	recFunc := &FuncResult{Name: oc.Func.Name, Contract: oc.Func.Contract, Exec: oc.Func.Exec, ModelVars: oc.Func.ModelVars, Theories: recTheories}
	query := groundQuery(p.assembleQuery(recFunc, oc.Obl, false))
	// phase 1: scalars and slice lengths
	var terms []string
	type prm struct {
		name, typ, smt string
	}
	var prms []prm
	for i, sp := range fn.Params {
		prms = append(prms, prm{sp.Name(), sp.Type().String(), oc.Func.ModelVars[i].S})
	}
	for _, pr := range prms {
		if strings.HasSuffix(pr.typ, "types.Pricing") {
			terms = append(terms, "(slen (Pricing_PromotionsByTime "+pr.smt+"))", "(slen (Pricing_PromotionsByVolume "+pr.smt+"))", "(slen (Pricing_Price "+pr.smt+"))")
			for i := 0; i < 3; i++ {
				e := fmt.Sprintf("(select (sarr (Pricing_PromotionsByTime %s)) %d)", pr.smt, i)
				terms = append(terms, "(PromotionByTime_StartTime "+e+")", "(PromotionByTime_EndTime "+e+")", "(PromotionByTime_Discount "+e+")")
				e = fmt.Sprintf("(select (sarr (Pricing_PromotionsByVolume %s)) %d)", pr.smt, i)
				terms = append(terms, "(PromotionByVolume_Volume "+e+")", "(PromotionByVolume_Discount "+e+")")
			}
		} else {
			terms = append(terms, pr.smt)
		}
	}
	vals, st := askValues(runDir, query, terms)
	if st != "sat" {
		ro.Note = "solver gave no model (" + st + ")"
		return ro
	}
	atoi := func(s string) int64 {
		var v int64
		fmt.Sscan(s, &v)
		return v
	}
	clamp := func(n int64) int64 {
		if n < 0 {
			return 0
		}
		if n > 3 {
			return 3
		}
		return n
	}
	// phase 2: elements
	var terms2 []string
	type plen struct{ t, v, c int64 }
	lens := map[string]plen{}
	for _, pr := range prms {
		if strings.HasSuffix(pr.typ, "types.Pricing") {
			l := plen{clamp(atoi(vals["(slen (Pricing_PromotionsByTime "+pr.smt+"))"])), clamp(atoi(vals["(slen (Pricing_PromotionsByVolume "+pr.smt+"))"])), clamp(atoi(vals["(slen (Pricing_Price "+pr.smt+"))"]))}
			lens[pr.name] = l
			for i := int64(0); i < l.t; i++ {
				e := fmt.Sprintf("(select (sarr (Pricing_PromotionsByTime %s)) %d)", pr.smt, i)
				terms2 = append(terms2, "(PromotionByTime_StartTime "+e+")", "(PromotionByTime_EndTime "+e+")", "(PromotionByTime_Discount "+e+")")
			}
			for i := int64(0); i < l.v; i++ {
				e := fmt.Sprintf("(select (sarr (Pricing_PromotionsByVolume %s)) %d)", pr.smt, i)
				terms2 = append(terms2, "(PromotionByVolume_Volume "+e+")", "(PromotionByVolume_Discount "+e+")")
			}
		}
	}
	vals2 := vals
	_ = terms2
	// build the Go call and the SMT literals
	var goArgs, smtArgs []string
	for _, pr := range prms {
		switch {
		case strings.HasSuffix(pr.typ, "types.Pricing"):
			l := lens[pr.name]
			var gt, gv, st, sv []string
			stArr, svArr := "zarr_PromotionByTime", "zarr_PromotionByVolume"
			for i := int64(0); i < l.t; i++ {
				e := fmt.Sprintf("(select (sarr (Pricing_PromotionsByTime %s)) %d)", pr.smt, i)
				a, b, d := atoi(vals2["(PromotionByTime_StartTime "+e+")"]), atoi(vals2["(PromotionByTime_EndTime "+e+")"]), vals2["(PromotionByTime_Discount "+e+")"]
				gt = append(gt, fmt.Sprintf("{StartTime: time.Unix(0, %d).UTC(), EndTime: time.Unix(0, %d).UTC(), Discount: dec(%q)}", a, b, d))
				stArr = fmt.Sprintf("(store %s %d (mkPromotionByTime %s %s %s))", stArr, i, smtInt(a), smtInt(b), smtIntS(d))
				st = append(st, fmt.Sprintf("[%d,%d) x %s", a, b, d))
			}
			for i := int64(0); i < l.v; i++ {
				e := fmt.Sprintf("(select (sarr (Pricing_PromotionsByVolume %s)) %d)", pr.smt, i)
				vv, d := vals2["(PromotionByVolume_Volume "+e+")"], vals2["(PromotionByVolume_Discount "+e+")"]
				gv = append(gv, fmt.Sprintf("{Volume: %s, Discount: dec(%q)}", vv, d))
				svArr = fmt.Sprintf("(store %s %d (mkPromotionByVolume %s %s))", svArr, i, smtIntS(vv), smtIntS(d))
				sv = append(sv, fmt.Sprintf("vol>=%s x %s", vv, d))
			}
			goArgs = append(goArgs, "Pricing{PromotionsByTime: []PromotionByTime{"+strings.Join(gt, ", ")+"}, PromotionsByVolume: []PromotionByVolume{"+strings.Join(gv, ", ")+"}}")
			smtArgs = append(smtArgs, fmt.Sprintf("(mkPricing (mkSlice 0 zarr_Coin) (mkSlice %d %s) (mkSlice %d %s))", l.t, stArr, l.v, svArr))
			ro.Inputs[pr.name] = map[string]interface{}{"promotions_by_time": st, "promotions_by_volume": sv}
		case pr.typ == "time.Time":
			v := atoi(vals[pr.smt])
			goArgs = append(goArgs, fmt.Sprintf("time.Unix(0, %d).UTC()", v))
			smtArgs = append(smtArgs, smtInt(v))
			ro.Inputs[pr.name] = v
		case pr.typ == "bool":
			goArgs = append(goArgs, vals[pr.smt])
			smtArgs = append(smtArgs, vals[pr.smt])
			ro.Inputs[pr.name] = vals[pr.smt]
		case strings.HasSuffix(pr.typ, "types.Dec"):
			goArgs = append(goArgs, fmt.Sprintf("dec(%q)", vals[pr.smt]))
			smtArgs = append(smtArgs, smtIntS(vals[pr.smt]))
			ro.Inputs[pr.name] = vals[pr.smt]
		default:
			goArgs = append(goArgs, fmt.Sprintf("%s(%s)", pr.typ, vals[pr.smt]))
			smtArgs = append(smtArgs, smtIntS(vals[pr.smt]))
			ro.Inputs[pr.name] = vals[pr.smt]
		}
	}
	resType := fn.Signature.Results().At(0).Type().String()
	show := "fmt.Sprint(r)"
	switch {
	case resType == "error":
		show = `map[bool]string{true: "NoErr", false: "(SomeErr 1)"}[r == nil]`
	case strings.HasSuffix(resType, "types.Dec"):
		show = "r.BigInt().String()"
	}
	test := fmt.Sprintf(`package types

import (
	"fmt"
	"math/big"
	"testing"
	"time"

	sdk "github.com/cosmos/cosmos-sdk/types"
)

var _ = time.Unix
var _ = big.NewInt

func dec(scaled string) sdk.Dec {
	b, _ := new(big.Int).SetString(scaled, 10)
	return sdk.NewDecFromBigIntWithPrec(b, 18)
}

func TestGovcReplay(t *testing.T) {
	defer func() {
		if e := recover(); e != nil {
			fmt.Printf("GOVC-REPLAY panic %%v\n", e)
		}
	}()
	r := %s(%s)
	fmt.Printf("GOVC-REPLAY value %%s\n", %s)
}
`, fn.Name(), strings.Join(goArgs, ", "), show)
	testFile := filepath.Join(runDir, "zz_govc_replay_test.go")
	os.WriteFile(testFile, []byte(test), 0o644)
	ov := filepath.Join(runDir, "overlay.json")
	ovb, _ := json.Marshal(map[string]map[string]string{"Replace": {filepath.Join(p.repo, "types", "zz_govc_replay_test.go"): testFile}})
	os.WriteFile(ov, ovb, 0o644)
	cmd := exec.Command("go", "test", "-overlay", ov, "-vet=off", "-count=1", "-v", "-timeout", "120s", "-run", "TestGovcReplay", ".")
	cmd.Dir = filepath.Join(p.repo, "types")
	cmd.Env = append(os.Environ(), "GOFLAGS=-mod=mod", "GOPROXY=off", "GOSUMDB=off", "GOTOOLCHAIN=local")
	done := make(chan struct{})
	var out []byte
	go func() { out, _ = cmd.CombinedOutput(); close(done) }()
	select {
	case <-done:
	case <-time.After(150 * time.Second):
		cmd.Process.Kill()
		ro.Note = "replay run timed out"
		return ro
	}
	ro.TestFile = testFile
	m := regexp.MustCompile(`GOVC-REPLAY (value|panic) (.*)`).FindStringSubmatch(string(out))
	if m == nil {
		ro.Note = "replay produced no result: " + truncate(string(out), 400)
		return ro
	}
	ro.Observed = m[1] + " " + m[2]
	if m[1] == "panic" {
		if oc.Obl.Kind == "safe" {
			ro.Replayed = true
			ro.Note = "the real code panics on the solver's input"
		} else {
			ro.Note = "the real code panicked on the solver's input"
		}
		return ro
	}
	if oc.Obl.Kind != "post" {
		ro.Note = "the counterexample is for an intermediate obligation (loop invariant / safety); the real result was obtained but there is no clause to evaluate it against"
		return ro
	}
	// ground re-check of the violated clause with the observed result
	var clause *Clause
	for _, e := range oc.Func.Contract.Ensures {
		if strings.HasSuffix(oc.Obl.Name, "#post:"+e.Label) {
			clause = e
		}
	}
	if clause == nil {
		return ro
	}
	env := &Env{Vars: map[string]Term{}, P: p}
	for i, pr := range prms {
		env.Vars[pr.name] = Term{smtArgs[i], p.sorts.sortOf(fn.Params[i].Type())}
	}
	obs := strings.TrimSpace(m[2])
	rs := p.sorts.sortOf(fn.Signature.Results().At(0).Type())
	if rs == "Int" {
		obs = smtIntS(obs)
	}
	env.Vars["result"] = Term{obs, rs}
	env.Vars["err"] = Term{obs, rs}
	for _, g := range stateComponents {
		env.Vars[g] = Term{"raw_unused_" + g, stateSorts[g]}
	}
	env.Old = env
	t, err := env.tr(clause.E)
	if err != nil {
		ro.Note = "cannot evaluate the clause on concrete values: " + err.Error()
		return ro
	}
	dummy := &Obl{Name: "replay", Goal: not(t), Prefix: 0, Cover: false}
	// assert the clause itself: unsat means the observed behaviour contradicts it
	q := p.assembleQuery(&FuncResult{Exec: &Exec{}, Theories: recTheories}, dummy, false)
	f := filepath.Join(runDir, "replay_ground.smt2")
	os.WriteFile(f, []byte(groundQuery(q)), 0o644)
	gout, _ := exec.Command("z3-new", "-T:20", f).CombinedOutput()
	verdict := strings.TrimSpace(strings.SplitN(string(gout), "\n", 2)[0])
	if verdict == "unsat" {
		ro.Replayed = true
		ro.Note = "the real function, run on the solver's input, returns a value that contradicts the clause (ground re-check unsat)"
	} else {
		ro.Note = "the real function's result on the solver's input is consistent with the clause (ground re-check " + verdict + "): spurious model"
	}
	return ro
}

func smtInt(v int64) string {
	if v < 0 {
		return fmt.Sprintf("(- %d)", -v)
	}
	return fmt.Sprint(v)
}

func smtIntS(s string) string {
	s = strings.TrimSpace(s)
	if strings.HasPrefix(s, "-") {
		return "(- " + s[1:] + ")"
	}
	return s
}

var _ = types.Typ

// groundQuery turns a verification query into a quantifier-free model-finding query over small sizes:
// quantified axioms of the prelude are dropped, integer-quantified hypotheses (loop invariants) are instantiated
// for 0..3, and slice lengths are bounded by 3. A model of the result is only a candidate; it is accepted
// only if the real code, run on it, contradicts the violated clause.
func groundQuery(q string) string {
	forms, err := parseSExps(q)
	if err != nil {
		return q
	}
	var sb strings.Builder
	for _, f := range forms {
		if f.head() == "assert" && len(f.List) == 2 {
			body := f.List[1]
			if body.head() == "!" && len(body.List) > 1 {
				body = body.List[1]
			}
			g, ok := instantiate(body)
			if !ok {
				continue // quantified over a non-integer sort: dropped
			}
			sb.WriteString("(assert " + g.String() + ")\n")
			continue
		}
		if f.head() == "declare-const" && len(f.List) == 3 && strings.HasPrefix(f.List[2].String(), "(Slice") {
			sb.WriteString(f.String() + "\n")
			sb.WriteString("(assert (and (<= 0 (slen " + f.List[1].Atom + ")) (<= (slen " + f.List[1].Atom + ") 3)))\n")
			continue
		}
		if f.head() == "declare-const" && len(f.List) == 3 && f.List[2].String() == "Pricing" {
			n := f.List[1].Atom
			sb.WriteString(f.String() + "\n")
			for _, fld := range []string{"Pricing_Price", "Pricing_PromotionsByTime", "Pricing_PromotionsByVolume"} {
				sb.WriteString("(assert (and (<= 0 (slen (" + fld + " " + n + "))) (<= (slen (" + fld + " " + n + ")) 3)))\n")
			}
			continue
		}
		sb.WriteString(f.String() + "\n")
	}
	return sb.String()
}

func hasQuant(s *SExp) bool {
	if !s.IsL {
		return false
	}
	if h := s.head(); h == "forall" || h == "exists" {
		return true
	}
	for _, c := range s.List {
		if hasQuant(c) {
			return true
		}
	}
	return false
}

func substSExp(s *SExp, name, val string) *SExp {
	if !s.IsL {
		if s.Atom == name {
			return &SExp{Atom: val}
		}
		return s
	}
	n := &SExp{IsL: true}
	for _, c := range s.List {
		n.List = append(n.List, substSExp(c, name, val))
	}
	return n
}

// instantiate expands universal quantifiers over Int by the instances 0..3 (positive positions only are expected).
func instantiate(s *SExp) (*SExp, bool) {
	if !s.IsL || !hasQuant(s) {
		return s, true
	}
	switch s.head() {
	case "forall":
		vars := s.List[1].List
		body := s.List[2]
		if body.head() == "!" {
			body = body.List[1]
		}
		insts := []*SExp{body}
		for _, v := range vars {
			if v.List[1].String() != "Int" {
				return nil, false
			}
			var next []*SExp
			for _, b := range insts {
				for k := 0; k <= 3; k++ {
					next = append(next, substSExp(b, v.List[0].Atom, fmt.Sprint(k)))
				}
			}
			insts = next
		}
		out := &SExp{IsL: true, List: []*SExp{{Atom: "and"}}}
		for _, b := range insts {
			g, ok := instantiate(b)
			if !ok {
				return nil, false
			}
			out.List = append(out.List, g)
		}
		return out, true
	case "exists":
		return nil, false
	}
	n := &SExp{IsL: true}
	for _, c := range s.List {
		g, ok := instantiate(c)
		if !ok {
			return nil, false
		}
		n.List = append(n.List, g)
	}
	return n, true
}
