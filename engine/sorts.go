package main

import (
	"fmt"
	"go/types"
	"sort"
	"strings"
)

// Sorts maps Go types to SMT sorts and generates datatype declarations for transparent structs.
type Sorts struct {
	sig      *Sig
	decls    []string          // generated declarations, in dependency order
	named    map[string]string // Go type string -> sort
	opaque   map[string]bool
	zeroDone map[string]bool
	codecs   map[string]bool // sorts with enc_/dec_ declared
	strLits  map[string]string
	strOrder []string
}

func newSorts(sig *Sig) *Sorts {
	so := &Sorts{sig: sig, named: map[string]string{}, opaque: map[string]bool{}, zeroDone: map[string]bool{}, codecs: map[string]bool{}, strLits: map[string]string{}}
	for v := range namedStrLits {
		so.strLit(v)
	}
	return so
}

var fixedSorts = map[string]string{
	"github.com/cosmos/cosmos-sdk/types.AccAddress":                 "Bytes",
	"github.com/cosmos/cosmos-sdk/types.ValAddress":                 "Bytes",
	"github.com/tendermint/tendermint/libs/bytes.HexBytes":          "Bytes",
	"github.com/cosmos/cosmos-sdk/types.Int":                        "Int",
	"github.com/cosmos/cosmos-sdk/types.Dec":                        "Int",
	"github.com/cosmos/cosmos-sdk/types.Uint":                       "Int",
	"time.Time":                                                     "Int",
	"time.Duration":                                                 "Int",
	"github.com/cosmos/cosmos-sdk/types.Context":                    "Ctx",
	"error":                                                         "Err",
	"*github.com/cosmos/cosmos-sdk/types/errors.Error":              "Err",
	"github.com/cosmos/cosmos-sdk/types.Events":                     "Opaque_Events",
	"github.com/cosmos/cosmos-sdk/types.Event":                      "Opaque_Event",
	"github.com/cosmos/cosmos-sdk/types.Attribute":                  "Opaque_Attribute",
	"github.com/cosmos/cosmos-sdk/types.Result":                     "Opaque_Result",
	"github.com/irismod/service/keeper.Keeper":                      "Keeper",
	"github.com/tendermint/tendermint/proto/tendermint/types.Header": "Header",
}

// transparent struct packages
var transparentPkgs = []string{
	"github.com/irismod/service/types.",
	"github.com/cosmos/cosmos-sdk/types.Coin",
	"github.com/cosmos/cosmos-sdk/types.DecCoin",
	"github.com/gogo/protobuf/types.BytesValue",
	"github.com/gogo/protobuf/types.Int64Value",
	"github.com/gogo/protobuf/types.UInt64Value",
	"github.com/gogo/protobuf/types.StringValue",
}

func isTransparent(name string) bool {
	for _, p := range transparentPkgs {
		if strings.HasPrefix(name, p) {
			return true
		}
	}
	return false
}

func sanitize(s string) string {
	var b strings.Builder
	for _, r := range s {
		if (r >= 'a' && r <= 'z') || (r >= 'A' && r <= 'Z') || (r >= '0' && r <= '9') || r == '_' {
			b.WriteRune(r)
		} else {
			b.WriteRune('_')
		}
	}
	return b.String()
}

func shortTypeName(full string) string {
	i := strings.LastIndex(full, ".")
	if i < 0 {
		return full
	}
	return full[i+1:]
}

func (so *Sorts) declareOpaque(name string) string {
	if so.sig.Sorts[name] && !so.opaque[name] {
		return name // declared by the prelude
	}
	if !so.opaque[name] {
		so.opaque[name] = true
		so.sig.Sorts[name] = true
		so.decls = append(so.decls, fmt.Sprintf("(declare-sort %s 0)", name))
	}
	return name
}

// sortOf maps a Go type to an SMT sort (declaring generated sorts on demand).
func (so *Sorts) sortOf(t types.Type) string {
	ts := t.String()
	if s, ok := fixedSorts[ts]; ok {
		if strings.HasPrefix(s, "Opaque_") {
			return so.declareOpaque(s)
		}
		return s
	}
	if s, ok := so.named[ts]; ok {
		return s
	}
	switch u := t.(type) {
	case *types.Named:
		if st, ok := u.Underlying().(*types.Struct); ok {
			return so.structSort(u, st, ts)
		}
		if _, ok := u.Underlying().(*types.Interface); ok {
			return so.declareOpaque("Iface")
		}
		return so.sortOf(u.Underlying())
	case *types.Alias:
		return so.sortOf(types.Unalias(t))
	case *types.Basic:
		switch {
		case u.Info()&types.IsBoolean != 0:
			return "Bool"
		case u.Info()&types.IsInteger != 0:
			return "Int"
		case u.Info()&types.IsString != 0:
			return "Str"
		case u.Kind() == types.UntypedNil:
			return "Nil"
		case u.Kind() == types.UnsafePointer:
			return so.declareOpaque("Opaque_unsafe")
		}
		return so.declareOpaque("Opaque_" + sanitize(u.Name()))
	case *types.Slice:
		if b, ok := u.Elem().Underlying().(*types.Basic); ok && b.Kind() == types.Uint8 {
			return "Bytes"
		}
		return "(Slice " + so.sortOf(u.Elem()) + ")"
	case *types.Array:
		return "(Array Int " + so.sortOf(u.Elem()) + ")"
	case *types.Pointer:
		if _, ok := u.Elem().Underlying().(*types.Struct); ok {
			return so.sortOf(u.Elem())
		}
		return so.declareOpaque("Opaque_ptr")
	case *types.Map:
		ms := so.declareOpaque("Map_" + sanitize(so.sortOf(u.Key())) + "_" + sanitize(so.sortOf(u.Elem())))
		// membership / lookup functions of the map sort
		has, get := "mapHas_"+ms, "mapGet_"+ms
		if _, ok := so.sig.Funs[has]; !ok {
			ks, es := so.sortOf(u.Key()), so.sortOf(u.Elem())
			so.sig.Funs[has] = &FunSig{Args: []string{ms, ks}, Ret: "Bool"}
			so.sig.Funs[get] = &FunSig{Args: []string{ms, ks}, Ret: es}
			so.decls = append(so.decls, fmt.Sprintf("(declare-fun %s (%s %s) Bool)", has, ms, ks), fmt.Sprintf("(declare-fun %s (%s %s) %s)", get, ms, ks, es))
			// construction: the empty map and insertion (maps built by the code: make + m[k] = v)
			empty, put := "mapEmpty_"+ms, "mapPut_"+ms
			so.sig.Funs[empty] = &FunSig{Args: nil, Ret: ms}
			so.sig.Funs[put] = &FunSig{Args: []string{ms, ks, es}, Ret: ms}
			so.decls = append(so.decls,
				fmt.Sprintf("(declare-fun %s () %s)", empty, ms),
				fmt.Sprintf("(declare-fun %s (%s %s %s) %s)", put, ms, ks, es, ms),
				fmt.Sprintf("(assert (forall ((k %s)) (! (not (%s %s k)) :pattern ((%s %s k)))))", ks, has, empty, has, empty),
				fmt.Sprintf("(assert (forall ((m %s) (k %s) (v %s) (k2 %s)) (! (= (%s (%s m k v) k2) (or (= k2 k) (%s m k2))) :pattern ((%s (%s m k v) k2)))))", ms, ks, es, ks, has, put, has, has, put),
				fmt.Sprintf("(assert (forall ((m %s) (k %s) (v %s) (k2 %s)) (! (= (%s (%s m k v) k2) (ite (= k2 k) v (%s m k2))) :pattern ((%s (%s m k v) k2)))))", ms, ks, es, ks, get, put, get, get, put))
		}
		return ms
	case *types.Signature:
		return so.declareOpaque("Func")
	case *types.Interface:
		return so.declareOpaque("Iface")
	case *types.Struct:
		if u.NumFields() == 0 {
			return so.declareOpaque("Unit")
		}
		return so.declareOpaque("Opaque_struct")
	case *types.Tuple:
		return "Tuple"
	}
	return so.declareOpaque("Opaque_" + sanitize(ts))
}

func (so *Sorts) structSort(n *types.Named, st *types.Struct, ts string) string {
	short := shortTypeName(ts)
	if !isTransparent(ts) {
		name := "Opaque_" + sanitize(short)
		so.named[ts] = name
		return so.declareOpaque(name)
	}
	name := short
	if so.sig.Sorts[name] {
		name = sanitize(ts)
	}
	so.named[ts] = name // pre-register (recursive types are not expected)
	info := &StructInfo{Sort: name, Ctor: "mk" + name}
	for i := 0; i < st.NumFields(); i++ {
		f := st.Field(i)
		if strings.HasPrefix(f.Name(), "XXX_") {
			continue
		}
		fs := so.sortOf(f.Type())
		info.Fields = append(info.Fields, FieldInfo{Name: f.Name(), Sel: name + "_" + f.Name(), Sort: fs})
	}
	var sb strings.Builder
	fmt.Fprintf(&sb, "(declare-datatypes ((%s 0)) (((%s", name, info.Ctor)
	fsig := &FunSig{Ret: name}
	for _, f := range info.Fields {
		fmt.Fprintf(&sb, " (%s %s)", f.Sel, f.Sort)
		so.sig.Funs[f.Sel] = &FunSig{Args: []string{name}, Ret: f.Sort}
		fsig.Args = append(fsig.Args, f.Sort)
	}
	sb.WriteString("))))")
	so.sig.Funs[info.Ctor] = fsig
	so.sig.Ctors[info.Ctor] = name
	so.sig.Sorts[name] = true
	so.sig.Structs[name] = info
	so.decls = append(so.decls, sb.String())
	// codec pair (the round-trip axiom is emitted after the range predicate below)
	so.decls = append(so.decls,
		fmt.Sprintf("(declare-fun enc_%s (%s) Bytes)", name, name),
		fmt.Sprintf("(declare-fun dec_%s (Bytes) %s)", name, name))
	so.decls = append(so.decls,
		fmt.Sprintf("(declare-fun jsonEnc_%s (%s) Bytes)", name, name),
		fmt.Sprintf("(declare-fun jsonDec_%s (Bytes) %s)", name, name))
	so.sig.Funs["jsonEnc_"+name] = &FunSig{Args: []string{name}, Ret: "Bytes"}
	so.sig.Funs["jsonDec_"+name] = &FunSig{Args: []string{"Bytes"}, Ret: name}
	so.sig.Funs["enc_"+name] = &FunSig{Args: []string{name}, Ret: "Bytes"}
	so.sig.Funs["dec_"+name] = &FunSig{Args: []string{"Bytes"}, Ret: name}
	// zero value
	zc := so.zeroCtor(info)
	so.decls = append(so.decls, fmt.Sprintf("(define-fun zero_%s () %s %s)", name, name, zc))
	so.sig.Funs["zero_"+name] = &FunSig{Ret: name}
	// type-range predicate
	var rs []string
	for i := 0; i < st.NumFields(); i++ {
		f := st.Field(i)
		if strings.HasPrefix(f.Name(), "XXX_") {
			continue
		}
		if r := so.rngOf("("+name+"_"+f.Name()+" x)", f.Type()); r != "true" {
			rs = append(rs, r)
		}
	}
	body := "true"
	if len(rs) == 1 {
		body = rs[0]
	} else if len(rs) > 1 {
		body = "(and " + strings.Join(rs, " ") + ")"
	}
	so.decls = append(so.decls, fmt.Sprintf("(define-fun rng_%s ((x %s)) Bool %s)", name, name, body))
	so.sig.Funs["rng_"+name] = &FunSig{Args: []string{name}, Ret: "Bool"}
	if body != "true" {
		so.decls = append(so.decls, fmt.Sprintf("(assert (forall ((b Bytes)) (! (rng_%s (dec_%s b)) :pattern ((dec_%s b)))))", name, name, name))
	}
	// round trip for values of the Go type (i.e. within the type's ranges)
	so.decls = append(so.decls, fmt.Sprintf("(assert (forall ((x %s)) (! (and (=> (rng_%s x) (= (dec_%s (enc_%s x)) x)) (not (= (enc_%s x) bnil))) :pattern ((enc_%s x)))))", name, name, name, name, name, name))
	return name
}

var rngBounds = map[types.BasicKind][2]string{
	types.Int64:  {"(- 9223372036854775808)", "9223372036854775807"},
	types.Int:    {"(- 9223372036854775808)", "9223372036854775807"},
	types.Uint64: {"0", "18446744073709551615"},
	types.Uint:   {"0", "18446744073709551615"},
	types.Int32:  {"(- 2147483648)", "2147483647"},
	types.Uint32: {"0", "4294967295"},
	types.Int16:  {"(- 32768)", "32767"},
	types.Uint16: {"0", "65535"},
	types.Int8:   {"(- 128)", "127"},
	types.Uint8:  {"0", "255"},
}

// rngOf returns the SMT formula stating that term (of Go type t) is within its type's range.
func (so *Sorts) rngOf(term string, t types.Type) string {
	if _, fixed := fixedSorts[t.String()]; fixed {
		return "true"
	}
	switch u := t.Underlying().(type) {
	case *types.Basic:
		if r, ok := rngBounds[u.Kind()]; ok {
			return fmt.Sprintf("(and (<= %s %s) (<= %s %s))", r[0], term, term, r[1])
		}
	case *types.Struct:
		s := so.sortOf(t)
		if _, ok := so.sig.Funs["rng_"+s]; ok {
			return "(rng_" + s + " " + term + ")"
		}
	case *types.Pointer:
		return so.rngOf(term, u.Elem())
	case *types.Slice:
		s := so.sortOf(t)
		if s == "Bytes" {
			return "true"
		}
		inner := so.rngOf("(select (sarr "+term+") i!r)", u.Elem())
		lenOK := "(<= 0 (slen " + term + "))"
		if inner == "true" {
			return lenOK
		}
		return fmt.Sprintf("(and %s (forall ((i!r Int)) (! %s :pattern ((select (sarr %s) i!r)))))", lenOK, inner, term)
	}
	return "true"
}

func (so *Sorts) zeroCtor(info *StructInfo) string {
	if len(info.Fields) == 0 {
		return info.Ctor
	}
	var parts []string
	for _, f := range info.Fields {
		parts = append(parts, so.zeroOf(f.Sort))
	}
	return "(" + info.Ctor + " " + strings.Join(parts, " ") + ")"
}

// zeroOf returns the SMT term for the Go zero value of a sort.
func (so *Sorts) zeroOf(sortName string) string {
	switch sortName {
	case "Int":
		return "0"
	case "Bool":
		return "false"
	case "Str":
		return "str_empty"
	case "Bytes":
		return "bnil"
	case "Err":
		return "NoErr"
	}
	if _, ok := so.sig.Structs[sortName]; ok {
		return "zero_" + sortName
	}
	h, args := sortParts(sortName)
	switch h {
	case "Slice":
		return fmt.Sprintf("(mkSlice 0 %s)", so.zeroArr(args[0]))
	case "Array":
		if args[0] == "Int" {
			return so.zeroArr(args[1])
		}
	}
	// opaque: a designated constant per sort
	c := "zero_" + sanitize(sortName)
	if !so.zeroDone[c] {
		so.zeroDone[c] = true
		so.decls = append(so.decls, fmt.Sprintf("(declare-const %s %s)", c, sortName))
		so.sig.Funs[c] = &FunSig{Ret: sortName}
	}
	return c
}

// zeroArr returns the all-zero array of an element sort (a declared constant with a pointwise axiom:
// cvc5 rejects (as const ...) over non-value terms).
func (so *Sorts) zeroArr(elem string) string {
	c := "zarr_" + sanitize(elem)
	if !so.zeroDone[c] {
		so.zeroDone[c] = true
		z := so.zeroOf(elem)
		so.decls = append(so.decls, fmt.Sprintf("(declare-const %s (Array Int %s))", c, elem),
			fmt.Sprintf("(assert (forall ((i Int)) (! (= (select %s i) %s) :pattern ((select %s i)))))", c, z, c))
		so.sig.Funs[c] = &FunSig{Ret: "(Array Int " + elem + ")"}
	}
	return c
}

// strLit returns the constant naming a string literal.
func (so *Sorts) strLit(v string) string {
	if v == "" {
		return "str_empty"
	}
	if c, ok := so.strLits[v]; ok {
		return c
	}
	c := fmt.Sprintf("strlit_%d", len(so.strLits))
	if n, ok := namedStrLits[v]; ok {
		c = n
	}
	so.strLits[v] = c
	so.strOrder = append(so.strOrder, v)
	so.sig.Funs[c] = &FunSig{Ret: "Str"}
	return c
}

// strLitDecls emits declarations for the string literals used (distinct, with lengths).
func (so *Sorts) strLitDecls() string {
	if len(so.strOrder) == 0 {
		return ""
	}
	var sb strings.Builder
	names := []string{"str_empty"}
	keys := append([]string{}, so.strOrder...)
	sort.Strings(keys)
	for _, v := range keys {
		c := so.strLits[v]
		fmt.Fprintf(&sb, "(declare-const %s Str) ; %q\n(assert (= (strlen %s) %d))\n", c, truncate(v, 60), c, len(v))
		names = append(names, c)
	}
	if len(names) > 1 {
		fmt.Fprintf(&sb, "(assert (distinct %s))\n", strings.Join(names, " "))
	}
	return sb.String()
}

func truncate(s string, n int) string {
	if len(s) > n {
		return s[:n] + "..."
	}
	return s
}

// string constants that the theories refer to by name
var namedStrLits = map[string]string{
	"service_deposit_account": "strlit_depositAcc",
	"service_request_account": "strlit_requestAcc",
	"fee_collector":           "strlit_feeCollector",
}
