package main

import (
	"bytes"
	"context"
	"crypto/sha256"
	"encoding/hex"
	"encoding/json"
	"fmt"
	"os"
	"os/exec"
	"path/filepath"
	"strings"
	"sync"
	"time"
)

type SolveResult struct {
	Status  string // unsat | sat | unknown | timeout | error
	Solver  string
	Seconds float64
	Output  string
	Second  string // second solver that confirmed (thorough tier)
	Cached  bool
}

type solverDef struct {
	name string
	args func(file string, timeoutS int) []string
}

var solvers = []solverDef{
	{"z3-new", func(f string, t int) []string { return []string{"z3-new", fmt.Sprintf("-T:%d", t), f} }},
	{"z3", func(f string, t int) []string { return []string{"z3", fmt.Sprintf("-T:%d", t), f} }},
	{"cvc5", func(f string, t int) []string { return []string{"cvc5", fmt.Sprintf("--tlimit=%d", t*1000), f} }},
}

func runSolver(ctx context.Context, sd solverDef, file string, timeoutS int) SolveResult {
	start := time.Now()
	args := sd.args(file, timeoutS)
	cctx, cancel := context.WithTimeout(ctx, time.Duration(timeoutS+2)*time.Second)
	defer cancel()
	cmd := exec.CommandContext(cctx, args[0], args[1:]...)
	var out bytes.Buffer
	cmd.Stdout = &out
	cmd.Stderr = &out
	_ = cmd.Run()
	res := SolveResult{Solver: sd.name, Seconds: time.Since(start).Seconds(), Output: out.String()}
	first := ""
	hadErr := false
	for _, l := range strings.Split(out.String(), "\n") {
		l = strings.TrimSpace(l)
		if l == "" || strings.HasPrefix(l, "WARNING:") {
			// z3 prints pattern warnings (a trigger that mentions a defined ite term) before the answer
			continue
		}
		if strings.HasPrefix(l, "(error") && first == "" {
			hadErr = true
			continue
		}
		if first == "" && !strings.HasPrefix(l, "(error") {
			first = l
		}
	}
	if hadErr {
		first = "error"
	}
	switch first {
	case "unsat", "sat", "unknown", "timeout":
		res.Status = first
	default:
		if cctx.Err() != nil {
			res.Status = "timeout"
		} else if strings.Contains(out.String(), "interrupted by timeout") || strings.Contains(first, "timeout") {
			res.Status = "timeout"
		} else {
			res.Status = "error"
		}
	}
	return res
}

type Solver struct {
	dir      string
	timeoutS int
	thorough bool
	useCache bool
	retries  int  // goals retried so far in this run (bounded: a tree with many failing goals is a broken tree, not solver noise)
	retry    bool // second round with other seeds for undecided goals (property checks; not for obligations listed as known findings)
	cacheDir string
	mu       sync.Mutex
	byBackend map[string]int
	totalSec float64
}

func newSolver(dir string, timeoutS int, thorough bool) *Solver {
	os.MkdirAll(dir, 0o755)
	s := &Solver{dir: dir, timeoutS: timeoutS, thorough: thorough, byBackend: map[string]int{}}
	return s
}

func (s *Solver) cacheGet(h string) (SolveResult, bool) {
	if !s.useCache {
		return SolveResult{}, false
	}
	b, err := os.ReadFile(filepath.Join(s.cacheDir, h+".json"))
	if err != nil {
		return SolveResult{}, false
	}
	var r SolveResult
	if json.Unmarshal(b, &r) != nil {
		return SolveResult{}, false
	}
	r.Cached = true
	return r, true
}

func (s *Solver) cachePut(h string, r SolveResult) {
	if !s.useCache || (r.Status != "unsat") {
		return
	}
	os.MkdirAll(s.cacheDir, 0o755)
	b, _ := json.Marshal(r)
	os.WriteFile(filepath.Join(s.cacheDir, h+".json"), b, 0o644)
}

// solve decides one query. expect is "unsat" for proof goals and "sat" for cover checks.
func (s *Solver) solve(name, query string, cover bool) SolveResult {
	sum := sha256.Sum256([]byte(query))
	h := hex.EncodeToString(sum[:12])
	if r, ok := s.cacheGet(h); ok {
		return r
	}
	file := filepath.Join(s.dir, sanitize(name)+"_"+h[:8]+".smt2")
	if len(filepath.Base(file)) > 200 {
		file = filepath.Join(s.dir, h+".smt2")
	}
	os.WriteFile(file, []byte(query), 0o644)
	to := s.timeoutS
	if cover {
		// a cover check only needs to fail to be refuted quickly
		to = 3
	}
	ctx, cancel := context.WithCancel(context.Background())
	defer cancel()
	// stage 1: z3-new alone with a short budget; stage 2: race all three
	stage1 := to / 3
	if stage1 < 2 {
		stage1 = 2
	}
	var first SolveResult
	if !s.thorough {
		first = runSolver(ctx, solvers[0], file, stage1)
		s.account(first)
		if first.Status == "unsat" || first.Status == "sat" {
			s.cachePut(h, first)
			if (first.Status == "unsat" && !cover) || (cover && first.Status != "unsat") {
				os.Remove(file) // a refuted cover (vacuity alarm) keeps its query for diagnosis
			}
			return first
		}
		if cover {
			os.Remove(file)
			return first
		}
	}
	ch := make(chan SolveResult, len(solvers))
	for _, sd := range solvers {
		sd := sd
		go func() { ch <- runSolver(ctx, sd, file, to) }()
	}
	var best SolveResult
	got := 0
	var decided []SolveResult
	for got < len(solvers) {
		r := <-ch
		got++
		s.account(r)
		if r.Status == "unsat" || r.Status == "sat" {
			decided = append(decided, r)
			if !s.thorough || len(decided) >= 2 || cover {
				break
			}
			continue
		}
		if best.Status == "" || (best.Status == "error" && r.Status != "error") {
			best = r
		}
	}
	cancel()
	if len(decided) > 0 {
		res := decided[0]
		if len(decided) > 1 {
			if decided[1].Status == res.Status {
				res.Second = decided[1].Solver
			} else {
				res.Status = "unknown"
				res.Output = fmt.Sprintf("solvers disagree: %s says %s, %s says %s", decided[0].Solver, decided[0].Status, decided[1].Solver, decided[1].Status)
			}
		}
		s.cachePut(h, res)
		if res.Status == "unsat" && !cover {
			os.Remove(file)
		}
		if cover {
			os.Remove(file)
		}
		return res
	}
	if cover {
		os.Remove(file)
		return best
	}
	// Second round for an undecided proof goal: solver heuristics are sensitive to the order of declarations, so an
	// obligation that usually takes a few seconds occasionally runs out of time. Before it is reported, it is retried with
	// twice the budget under three other random seeds; only a goal undecided in both rounds counts as failed.
	allowRetry := false
	if s.retry && (best.Status == "timeout" || best.Status == "unknown") {
		s.mu.Lock()
		if s.retries < 8 {
			s.retries++
			allowRetry = true
		}
		s.mu.Unlock()
	}
	if allowRetry {
		ctx2, cancel2 := context.WithCancel(context.Background())
		defer cancel2()
		ch2 := make(chan SolveResult, 3)
		for seed := 1; seed <= 3; seed++ {
			seed := seed
			sd := solverDef{"z3-new", func(f string, t int) []string {
				return []string{"z3-new", fmt.Sprintf("-T:%d", t), fmt.Sprintf("smt.random_seed=%d", seed), fmt.Sprintf("sat.random_seed=%d", seed), f}
			}}
			go func() { ch2 <- runSolver(ctx2, sd, file, 2*to) }()
		}
		for i := 0; i < 3; i++ {
			r := <-ch2
			s.account(r)
			if r.Status == "unsat" {
				r.Solver = "z3-new(retry)"
				s.cachePut(h, r)
				os.Remove(file)
				return r
			}
		}
	}
	return best
}

func (s *Solver) account(r SolveResult) {
	s.mu.Lock()
	defer s.mu.Unlock()
	s.totalSec += r.Seconds
	if r.Status == "unsat" || r.Status == "sat" {
		s.byBackend[r.Solver]++
	}
}
