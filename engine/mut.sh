#!/bin/bash
# dev helper: run govc on a scratch copy of /repo with a sed edit applied.  usage: mut.sh <file> <sed-expr> <govc args...>
set -e
D=/root/scratch-mut-$$
rm -rf $D; mkdir -p $D; rsync -a --exclude .git /repo/ $D/
f=$1; e=$2; shift 2
sed -i "$e" $D/$f
if diff -q /repo/$f $D/$f >/dev/null; then echo "mut.sh: edit did not change $f"; rm -rf $D; exit 9; fi
(cd $D && GOFLAGS=-mod=mod GOPROXY=off GOSUMDB=off GOTOOLCHAIN=local go build ./... ) || { echo "mutant does not compile"; rm -rf $D; exit 8; }
set +e
GOVC_CONTRACTS=${GOVC_CONTRACTS:-mirror} /verif/bin/govc "$@" -repo $D
rc=$?
rm -rf $D
exit $rc
