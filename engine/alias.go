package main

import (
	"go/types"

	"golang.org/x/tools/go/ssa"
)

// Retained pointers. The executor gives slices, structs and maps value semantics: when the address of a local
// variable is stored into an element of an aggregate (append(list, &x), T{P: &x}, m[k] = &x) the aggregate receives
// the variable's *current content*. That is exact as long as the variable is not assigned again while the pointer is
// retained. aliasCheck looks for the opposite case in the SSA of a function: an Alloc whose address is stored into an
// aggregate (or returned inside one) and which can be written again afterwards on a path that does not re-execute the
// Alloc (a fresh variable per iteration is a new object; a variable declared before the loop is one object that every
// retained pointer shares). Such a function is out of reach: its obligations are undecided, never proved.
func aliasCheck(fn *ssa.Function) (bad []*ssa.Alloc, where []ssa.Instruction) {
	if len(fn.Blocks) == 0 {
		return
	}
	type site = bsite
	// escapes[A] = stores of the address of A (itself) into memory that is not a plain pointer variable
	escapes := map[*ssa.Alloc][]site{}
	writes := map[*ssa.Alloc][]site{}
	rootAlloc := func(v ssa.Value) *ssa.Alloc {
		for {
			switch x := v.(type) {
			case *ssa.Alloc:
				return x
			case *ssa.FieldAddr:
				v = x.X
			case *ssa.IndexAddr:
				v = x.X
			case *ssa.ChangeType:
				v = x.X
			default:
				return nil
			}
		}
	}
	isPtrToNonByteArray := func(a *ssa.Alloc) bool {
		// varargs backing arrays (new [1]*T) and byte buffers are not "variables whose address is retained"
		el := a.Type().Underlying().(*types.Pointer).Elem()
		if _, ok := el.Underlying().(*types.Array); ok {
			return false
		}
		return true
	}
	for _, b := range fn.Blocks {
		for i, ins := range b.Instrs {
			switch x := ins.(type) {
			case *ssa.Store:
				// the value stored is the address of a local variable
				if a, ok := x.Val.(*ssa.Alloc); ok && isPtrToNonByteArray(a) && rootAlloc(x.Addr) != a {
					// stored into an element of an aggregate or a field: the address is retained there
					switch x.Addr.(type) {
					case *ssa.IndexAddr, *ssa.FieldAddr:
						escapes[a] = append(escapes[a], site{b, i})
					}
				}
				if a := rootAlloc(x.Addr); a != nil {
					writes[a] = append(writes[a], site{b, i})
				}
			case *ssa.MapUpdate:
				if a, ok := x.Value.(*ssa.Alloc); ok && isPtrToNonByteArray(a) {
					escapes[a] = append(escapes[a], site{b, i})
				}
			case ssa.CallInstruction:
				// a call that receives the address may write through it (decoders: Unmarshal(bz, &x))
				for _, arg := range x.Common().Args {
					if a := rootAlloc(arg); a != nil {
						if _, isPtr := arg.Type().Underlying().(*types.Pointer); isPtr {
							writes[a] = append(writes[a], site{b, i})
						}
					}
				}
			}
		}
	}
	for a, escs := range escapes {
		ws := writes[a]
		if len(ws) == 0 {
			continue
		}
		for _, e := range escs {
			if w, ok := reachesWriteAvoiding(fn, e.b, e.idx, a, ws2map(ws)); ok {
				bad = append(bad, a)
				where = append(where, w)
				break
			}
		}
	}
	return
}

type bsite struct {
	b   *ssa.BasicBlock
	idx int
}

func ws2map(ws []bsite) map[bsite]bool {
	m := map[bsite]bool{}
	for _, w := range ws {
		m[bsite{w.b, w.idx}] = true
	}
	return m
}

// reachesWriteAvoiding: is there a CFG path from just after instruction (b, idx) to a write of a that does not
// execute the Alloc instruction a itself?
func reachesWriteAvoiding(fn *ssa.Function, b *ssa.BasicBlock, idx int, a *ssa.Alloc, ws map[bsite]bool) (ssa.Instruction, bool) {
	scan := func(bb *ssa.BasicBlock, from int) (ssa.Instruction, bool, bool) { // (write, found, blocked)
		for i := from; i < len(bb.Instrs); i++ {
			if bb.Instrs[i] == ssa.Instruction(a) {
				return nil, false, true
			}
			if ws[bsite{bb, i}] {
				return bb.Instrs[i], true, false
			}
		}
		return nil, false, false
	}
	if w, found, blocked := scan(b, idx+1); found {
		return w, true
	} else if blocked {
		return nil, false
	}
	seen := map[*ssa.BasicBlock]bool{}
	work := append([]*ssa.BasicBlock{}, b.Succs...)
	for len(work) > 0 {
		bb := work[len(work)-1]
		work = work[:len(work)-1]
		if seen[bb] {
			continue
		}
		seen[bb] = true
		w, found, blocked := scan(bb, 0)
		if found {
			return w, true
		}
		if blocked {
			continue
		}
		work = append(work, bb.Succs...)
	}
	return nil, false
}

// aliasingPointerParams: two pointer parameters (or captured pointers) with identical pointee types, one of which is stored
// through. Pointer parameters are modelled as distinct cells; with a store through one of them that is an assumption the
// caller could violate, so such a function is out of reach. (Read-only pointer parameters may alias freely.)
func aliasingPointerParams(fn *ssa.Function) (*ssa.Parameter, *ssa.Parameter) {
	var ptrs []*ssa.Parameter
	for _, p := range fn.Params {
		if _, ok := p.Type().Underlying().(*types.Pointer); ok {
			ptrs = append(ptrs, p)
		}
	}
	if len(ptrs) < 2 {
		return nil, nil
	}
	written := map[*ssa.Parameter]bool{}
	var root func(v ssa.Value) ssa.Value
	root = func(v ssa.Value) ssa.Value {
		switch x := v.(type) {
		case *ssa.FieldAddr:
			return root(x.X)
		case *ssa.IndexAddr:
			return root(x.X)
		case *ssa.ChangeType:
			return root(x.X)
		}
		return v
	}
	for _, b := range fn.Blocks {
		for _, ins := range b.Instrs {
			if st, ok := ins.(*ssa.Store); ok {
				if p, ok := root(st.Addr).(*ssa.Parameter); ok {
					written[p] = true
				}
			}
		}
	}
	for i, a := range ptrs {
		for _, b := range ptrs[i+1:] {
			if types.Identical(a.Type(), b.Type()) && (written[a] || written[b]) {
				return a, b
			}
		}
	}
	return nil, nil
}
