package main

import (
	"fmt"
	"go/token"
	"go/types"
	"strings"

	"golang.org/x/tools/go/ssa"
)

// FuncResult is the verification condition of one function under contract.
type FuncResult struct {
	Name        string
	Contract    *Contract
	Exec        *Exec
	Obls        []*Obl
	Unsupported []string
	ModelVars   []Term // constants whose values are requested from a counterexample
	Theories    []string
}

// verifyFunc generates the obligations of a function against its contract.
func (p *Program) verifyFunc(c *Contract) *FuncResult {
	fn := p.funcs[c.Func]
	ex := &Exec{P: p, top: fn, topC: c, trusted: map[string]bool{}, usedContracts: map[string]bool{}, inlined: map[string]bool{}, ncall: map[string]int{}}
	res := &FuncResult{Name: shortFuncName(fn), Contract: c, Exec: ex}
	res.Theories = c.Theory
	if len(res.Theories) == 0 {
		res.Theories = p.defaultTheories()
	}
	st := &St{cells: map[*Cell]Val{}, glob: map[string]Term{}}
	for _, g := range stateComponents {
		st.glob[g] = ex.fresh(g+"0", stateSorts[g])
	}
	fr := &Frame{ex: ex, fn: fn, contract: c, vals: map[ssa.Value]Val{}, names: map[string]Val{}, cellNames: map[string]*Cell{}, nilFlags: map[ssa.Value]Term{}}
	entryEnv := &Env{Vars: map[string]Term{}, P: p, Ren: c.Ren}
	ptrParams := map[string]*Cell{}
	bindParam := func(name string, v ssa.Value, t types.Type) {
		if pt, ok := t.Underlying().(*types.Pointer); ok {
			// pointer parameter / captured variable: a cell with unknown initial content
			elem := pt.Elem()
			s := p.sorts.sortOf(elem)
			cell := ex.newCell(name, s)
			switch elem.Underlying().(type) {
			case *types.Signature:
				// captured function variable: resolved statically from the enclosing function if possible
				if fv := p.resolveCapturedFunc(fn, v); fv != nil {
					st.cells[cell] = fv
				} else {
					st.cells[cell] = &unknownVal{"captured function variable " + name}
				}
			case *types.Map:
				st.cells[cell] = ex.fresh(name, s)
			default:
				f := ex.fresh(name, s)
				if r := p.rangeFact(f, elem); r.S != "true" {
					ex.emit("(assert %s)", r.S)
				}
				st.cells[cell] = f
				entryEnv.Vars[name] = f
				res.ModelVars = append(res.ModelVars, f)
			}
			fr.vals[v] = &Ptr{cell: cell}
			fr.cellNames[name] = cell
			ptrParams[name] = cell
			return
		}
		switch t.Underlying().(type) {
		case *types.Signature:
			fr.vals[v] = &unknownVal{"function parameter " + name}
			return
		}
		s := p.sorts.sortOf(t)
		f := ex.fresh(name, s)
		if r := p.rangeFact(f, t); r.S != "true" {
			ex.emit("(assert %s)", r.S)
		}
		fr.vals[v] = f
		fr.names[name] = f
		entryEnv.Vars[name] = f
		res.ModelVars = append(res.ModelVars, f)
	}
	for _, prm := range fn.Params {
		bindParam(prm.Name(), prm, prm.Type())
	}
	// a closure is verified in the context of its creation: captured variables that are assigned only before the closure is
	// made (and by no closure) keep the value they have there (e.g. height := ctx.BlockHeight() hoisted out of a closure)
	captured := p.capturedValues(ex, fn)
	for i, fv := range fn.FreeVars {
		bindParam(fv.Name(), fv, fv.Type())
		if t, ok := captured[i]; ok {
			if ptr, isPtr := fr.vals[fv].(*Ptr); isPtr && ptr.cell != nil && t.Sort == ptr.cell.sort {
				st.cells[ptr.cell] = t
				entryEnv.Vars[fv.Name()] = t
			}
		}
	}
	// captured function variables resolved statically: their own captured variables are this closure's free variables
	for _, v := range st.cells {
		if fv, ok := v.(*FuncVal); ok {
			for i, b := range fv.bindings {
				if ref, ok := b.(*freeRef); ok {
					fv.bindings[i] = fr.vals[ref.fv]
				}
			}
		}
	}
	for _, g := range stateComponents {
		entryEnv.Vars[g] = st.glob[g]
	}
	fr.oldEnv = entryEnv
	fr.entrySt = st.clone()
	ex.entry = fr.entrySt
	// preconditions
	for _, r := range c.Requires {
		t, err := entryEnv.tr(r.E)
		if err != nil || t.Sort != "Bool" {
			ex.unsup(fn.Pos(), "requires %s: %v", r.Label, err)
			continue
		}
		ex.emit("(assert %s) ; requires %s", t.S, r.Label)
	}
	ex.obls = append(ex.obls, &Obl{Name: res.Name + "#cover:entry", Kind: "cover", Goal: tTrue, Prefix: len(ex.lines), Cover: true, Props: c.Props, Pos: fn.Pos()})
	if c.Trusted {
		res.Obls = ex.obls
		return res
	}
	rets := fr.run(tTrue, st)
	// postconditions
	rnames := resultNames(c, fn, nil)
	var retConds []Term
	perExit := map[string][]Term{} // post label -> its formula at each exit (in the order of rets), for "after ... assume"
	for _, e := range c.Ensures {
		if e.Assumed {
			ex.trusted["assumed clause of "+res.Name+": "+e.Label+" ("+truncate(e.Src, 120)+")"] = true
			continue
		}
		var goals []Term
		for ri, r := range rets {
			env := fr.baseEnv(r.st, fr.names, nil)
			for k, v := range entryEnv.Vars {
				if _, isState := stateSorts[k]; !isState {
					env.Vars[k] = v
				}
			}
			// pointer params: current content
			for name, cell := range ptrParams {
				if v, ok := r.st.cells[cell].(Term); ok {
					env.Vars[name] = v
				}
			}
			// value parameters keep their entry value even if the body reassigns its local copy
			for k, v := range entryEnv.Vars {
				if _, isState := stateSorts[k]; !isState {
					if _, isPtr := ptrParams[k]; !isPtr {
						env.Vars[k] = v
					}
				}
			}
			for i, v := range r.vals {
				if i < len(rnames) {
					if t, ok := v.(Term); ok {
						if t.Sort == "Nil" {
							s := p.sorts.sortOf(fn.Signature.Results().At(i).Type())
							t = Term{p.sorts.zeroOf(s), s}
						}
						env.Vars[rnames[i]] = t
						if rnames[i] == "err" && len(r.vals) == 1 {
							env.Vars["result"] = t
						}
					}
				}
			}
			for _, w := range c.Witnesses {
				wt, err := env.tr(w.E)
				if err != nil || wt.Sort != w.Sort {
					ex.unsup(fn.Pos(), "witness %s: %v (sort %s, want %s)", w.Name, err, wt.Sort, w.Sort)
					continue
				}
				env.Vars[w.Name] = wt
			}
			t, err := env.tr(e.E)
			if err != nil || t.Sort != "Bool" {
				ex.unsup(fn.Pos(), "ensures %s: %v", e.Label, err)
				perExit[e.Label] = append(perExit[e.Label], tTrue) // keeps the exits aligned; assuming "true" assumes nothing
				continue
			}
			if e.OnSuccess {
				if ev, ok := env.Vars["err"]; ok && ev.Sort == "Err" {
					t = implies(eq(ev, Term{"NoErr", "Err"}), t)
				}
			}
			perExit[e.Label] = append(perExit[e.Label], t)
			for _, u := range c.After[e.Label] {
				ut, ok := perExit[u]
				if !ok || len(ut) <= ri || u == e.Label {
					ex.unsup(fn.Pos(), "ensures %s: 'after' names %s, which is not a postcondition stated and translated before it", e.Label, u)
					continue
				}
				t = implies(ut[ri], t)
			}
			goals = append(goals, implies(r.cond, t))
		}
		ex.oblige(res.Name+"#post:"+e.Label, "post", and(goals...), fr.propsOf(e), fn.Pos(), e.Src)
	}
	for _, r := range rets {
		retConds = append(retConds, r.cond)
	}
	// frame: components outside modifies are unchanged
	mods := map[string]bool{}
	for _, g := range c.Modifies {
		mods[g] = true
	}
	for _, g := range stateComponents {
		if mods[g] {
			continue
		}
		var goals []Term
		for _, r := range rets {
			if r.st.glob[g].S != fr.entrySt.glob[g].S {
				goals = append(goals, implies(r.cond, eq(r.st.glob[g], fr.entrySt.glob[g])))
			}
		}
		if len(goals) > 0 {
			ex.oblige(res.Name+"#frame:"+g, "frame", and(goals...), c.Props, fn.Pos(), "unchanged("+g+")")
		}
	}
	// panics
	if !c.MayPanic {
		for i, pr := range ex.panics {
			ex.obls = append(ex.obls, &Obl{Name: fmt.Sprintf("%s#safe:nopanic@%d", res.Name, i+1), Kind: "safe", Goal: not(pr.cond), Prefix: pr.prefix, Props: c.Props, Pos: pr.pos, Src: pr.desc})
		}
	}
	// vacuity: some return must be reachable
	ex.obls = append(ex.obls, &Obl{Name: res.Name + "#cover:exit", Kind: "cover", Goal: or(retConds...), Prefix: len(ex.lines), Cover: true, Props: c.Props, Pos: fn.Pos()})
	res.Obls = ex.obls
	res.Unsupported = ex.unsupported
	return res
}

// resolveCapturedFunc finds, for a captured function variable of a closure, the closure stored in it by the parent.
func (p *Program) resolveCapturedFunc(fn *ssa.Function, fv ssa.Value) Val {
	free, ok := fv.(*ssa.FreeVar)
	if !ok || fn.Parent() == nil {
		return nil
	}
	parent := fn.Parent()
	idx := -1
	for i, f := range fn.FreeVars {
		if f == free {
			idx = i
		}
	}
	// find the MakeClosure of fn in the parent and the alloc bound at idx
	var alloc *ssa.Alloc
	for _, b := range parent.Blocks {
		for _, ins := range b.Instrs {
			if mc, ok := ins.(*ssa.MakeClosure); ok && mc.Fn == fn && idx < len(mc.Bindings) {
				if a, ok := mc.Bindings[idx].(*ssa.Alloc); ok {
					alloc = a
				}
			}
		}
	}
	if alloc == nil {
		return nil
	}
	// the unique store of a closure into that alloc
	var stored *ssa.MakeClosure
	n := 0
	for _, f := range append([]*ssa.Function{parent}, parent.AnonFuncs...) {
		for _, b := range f.Blocks {
			for _, ins := range b.Instrs {
				st, ok := ins.(*ssa.Store)
				if !ok {
					continue
				}
				if st.Addr == alloc {
					n++
					if mc, ok := st.Val.(*ssa.MakeClosure); ok {
						stored = mc
					}
				}
				// stores through the captured variable inside closures
				if fvv, ok := st.Addr.(*ssa.FreeVar); ok && fvv.Name() == free.Name() {
					n++
				}
			}
		}
	}
	if n != 1 || stored == nil {
		return nil
	}
	target := stored.Fn.(*ssa.Function)
	out := &FuncVal{fn: target}
	// bindings of the target are allocs of the parent; map them to this closure's free variables by identity
	for _, b := range stored.Bindings {
		ba, ok := b.(*ssa.Alloc)
		if !ok {
			return nil
		}
		found := false
		// which free var of fn is bound to the same alloc?
		for _, bb := range parent.Blocks {
			for _, ins := range bb.Instrs {
				if mc, ok := ins.(*ssa.MakeClosure); ok && mc.Fn == fn {
					for j, bnd := range mc.Bindings {
						if bnd == ba {
							out.bindings = append(out.bindings, &freeRef{fn.FreeVars[j]})
							found = true
						}
					}
				}
			}
		}
		if !found {
			return nil
		}
	}
	return out
}

// freeRef is a placeholder for "the pointer held by this free variable of the enclosing closure".
type freeRef struct{ fv *ssa.FreeVar }

// ---------------------------------------------------------------- lemmas

// verifyLemma builds the obligation of a pure lemma: requires ==> ensures over its parameters.
func (p *Program) verifyLemma(c *Contract) *FuncResult {
	ex := &Exec{P: p, topC: c, trusted: map[string]bool{}, usedContracts: map[string]bool{}, inlined: map[string]bool{}, ncall: map[string]int{}}
	res := &FuncResult{Name: "lemma." + c.Short, Contract: c, Exec: ex}
	res.Theories = c.Theory
	if len(res.Theories) == 0 {
		res.Theories = p.defaultTheories()
	}
	env := &Env{Vars: map[string]Term{}, P: p}
	for i, n := range c.Params {
		f := ex.fresh(n, c.ParamSorts[i])
		env.Vars[n] = f
		res.ModelVars = append(res.ModelVars, f)
	}
	// a lemma may only rest on lemmas stated before it: no circular arguments
	myIdx := len(p.lemmas)
	for i, l := range p.lemmas {
		if l == c {
			myIdx = i
		}
	}
	for _, u := range lemmaDeps(c) {
		for i, l := range p.lemmas {
			if l.Short == u && i >= myIdx {
				ex.unsup(token.NoPos, "lemma %s rests on %s, which is not stated before it", c.Short, u)
			}
		}
	}
	// earlier lemmas used as hypotheses (universally quantified over their parameters)
	for _, u := range c.Uses {
		var lc *Contract
		for _, l := range p.lemmas {
			if l.Short == u {
				lc = l
			}
		}
		if lc == nil {
			ex.unsup(token.NoPos, "lemma %s uses unknown lemma %s", c.Short, u)
			continue
		}
		q, err := p.lemmaFormula(lc)
		if err != nil {
			ex.unsup(token.NoPos, "lemma %s: %v", u, err)
			continue
		}
		ex.emit("(assert %s) ; uses %s", q, u)
	}
	for _, r := range c.Requires {
		t, err := env.tr(r.E)
		if err != nil || t.Sort != "Bool" {
			ex.unsup(token.NoPos, "lemma %s requires %s: %v", c.Short, r.Label, err)
			continue
		}
		ex.emit("(assert %s)", t.S)
	}
	ex.obls = append(ex.obls, &Obl{Name: res.Name + "#cover:entry", Kind: "cover", Goal: tTrue, Prefix: len(ex.lines), Cover: true, Props: c.Props})
	for _, a := range c.Applies {
		call, ok := a.E.(*ECall)
		if !ok {
			ex.unsup(token.NoPos, "lemma %s: apply needs lemma(args)", c.Short)
			continue
		}
		var lc *Contract
		for _, l := range p.lemmas {
			if l.Short == call.Fn {
				lc = l
			}
		}
		if lc == nil || len(lc.Params) != len(call.Args) {
			ex.unsup(token.NoPos, "lemma %s: cannot apply %s", c.Short, call.Fn)
			continue
		}
		inst := &Env{Vars: map[string]Term{}, P: p}
		bad := false
		for i, arg := range call.Args {
			t, err := env.tr(arg)
			if err != nil || t.Sort != lc.ParamSorts[i] {
				ex.unsup(token.NoPos, "lemma %s: argument %d of %s: %v (sort %s, want %s)", c.Short, i, call.Fn, err, t.Sort, lc.ParamSorts[i])
				bad = true
				break
			}
			inst.Vars[lc.Params[i]] = t
		}
		if bad {
			continue
		}
		var pre, post []Term
		for _, r := range lc.Requires {
			t, err := inst.tr(r.E)
			if err == nil {
				pre = append(pre, t)
			}
		}
		for _, e := range lc.Ensures {
			t, err := inst.tr(e.E)
			if err == nil {
				post = append(post, t)
			}
		}
		ex.emit("(assert %s) ; instance of lemma %s", implies(and(pre...), and(post...)).S, call.Fn)
	}
	for _, h := range c.Hints {
		t, err := env.tr(h.E)
		if err != nil {
			ex.unsup(token.NoPos, "lemma %s hint: %v", c.Short, err)
			continue
		}
		hv := ex.fresh("hint", t.Sort)
		ex.emit("(assert (= %s %s)) ; hint (mentions a term, adds no fact)", hv.S, t.S)
	}
	for _, e := range c.Ensures {
		t, err := env.tr(e.E)
		if err != nil || t.Sort != "Bool" {
			ex.unsup(token.NoPos, "lemma %s ensures %s: %v", c.Short, e.Label, err)
			continue
		}
		props := append([]string{}, e.Props...)
		for _, pp := range c.Props {
			if !hasProp(props, pp) {
				props = append(props, pp)
			}
		}
		ex.oblige(res.Name+"#lemma:"+e.Label, "lemma", t, props, token.NoPos, e.Src)
	}
	res.Obls = ex.obls
	res.Unsupported = ex.unsupported
	return res
}

// lemmaFormula renders a lemma as a closed universally quantified formula.
func (p *Program) lemmaFormula(c *Contract) (string, error) {
	env := &Env{Vars: map[string]Term{}, P: p}
	var decl []string
	for i, n := range c.Params {
		env.Vars[n] = Term{n + "!u", c.ParamSorts[i]}
		decl = append(decl, "("+n+"!u "+c.ParamSorts[i]+")")
	}
	var pre, post []Term
	for _, r := range c.Requires {
		t, err := env.tr(r.E)
		if err != nil {
			return "", err
		}
		pre = append(pre, t)
	}
	for _, e := range c.Ensures {
		t, err := env.tr(e.E)
		if err != nil {
			return "", err
		}
		post = append(post, t)
	}
	body := implies(and(pre...), and(post...))
	if len(decl) == 0 {
		return body.S, nil
	}
	return "(forall (" + strings.Join(decl, " ") + ") " + body.S + ")", nil
}

// ---------------------------------------------------------------- query assembly

func (p *Program) assembleQuery(res *FuncResult, o *Obl, forModel bool) string {
	var sb strings.Builder
	sb.WriteString("(set-option :produce-models true)\n(set-logic ALL)\n")
	sb.WriteString("; obligation " + o.Name + "\n")
	sb.WriteString(p.theories["core"])
	sb.WriteString("\n; ---- generated declarations\n")
	for _, d := range p.sorts.decls {
		sb.WriteString(d)
		sb.WriteString("\n")
	}
	sb.WriteString("\n; ---- string literals\n")
	sb.WriteString(p.sorts.strLitDecls())
	for _, l := range p.strConsts {
		sb.WriteString(l + "\n")
	}
	want := map[string]bool{}
	for _, th := range res.Theories {
		want[th] = true
	}
	for _, th := range p.theoryOrder {
		if th == "core" || !want[th] {
			continue
		}
		txt, ok := p.theories[th]
		if !ok {
			sb.WriteString("; missing theory " + th + "\n")
			continue
		}
		sb.WriteString("\n; ---- theory " + th + "\n")
		sb.WriteString(txt)
		if th == "bytes" || th == "keys" {
			for _, a := range p.globalAx {
				sb.WriteString(a + "\n")
			}
		}
	}
	sb.WriteString("\n; ---- body\n")
	for _, l := range res.Exec.lines[:o.Prefix] {
		sb.WriteString(l)
		sb.WriteString("\n")
	}
	if o.Cover {
		fmt.Fprintf(&sb, "(assert %s)\n(check-sat)\n", o.Goal.S)
		return sb.String()
	}
	fmt.Fprintf(&sb, "(assert (not %s))\n(check-sat)\n", o.Goal.S)
	if forModel && len(res.ModelVars) > 0 {
		var vs []string
		for _, v := range res.ModelVars {
			vs = append(vs, v.S)
		}
		fmt.Fprintf(&sb, "(get-value (%s))\n", strings.Join(vs, " "))
	}
	return sb.String()
}

// defaultTheories: every theory except the byte-level one (layer K), in file order.
func (p *Program) defaultTheories() []string {
	var out []string
	for _, th := range p.theoryOrder {
		if th == "core" || th == "bytes" || th == "bat" || th == "pricingrec" {
			continue // byte-level theories (layer K) are loaded only where a contract or lemma names them, never together with "state"
		}
		out = append(out, th)
	}
	return out
}


// capturedValues symbolically executes the entry block of the enclosing function up to the creation of closure fn and returns,
// per free-variable index, the value of each captured variable that is stable: assigned only in that prefix and by no closure.
// Obligations and diagnostics of the prefix are discarded (the enclosing function is verified on its own).
func (p *Program) capturedValues(ex *Exec, fn *ssa.Function) map[int]Term {
	out := map[int]Term{}
	parent := fn.Parent()
	if parent == nil || len(parent.Blocks) == 0 {
		return out
	}
	b0 := parent.Blocks[0]
	var mk *ssa.MakeClosure
	mkIdx := -1
	for i, ins := range b0.Instrs {
		if m, ok := ins.(*ssa.MakeClosure); ok && m.Fn == fn {
			mk, mkIdx = m, i
			break
		}
	}
	if mk == nil {
		return out
	}
	stable := map[int]bool{}
	for i, b := range mk.Bindings {
		a, ok := b.(*ssa.Alloc)
		if !ok || a.Referrers() == nil {
			continue
		}
		okAll := true
		for _, r := range *a.Referrers() {
			switch x := r.(type) {
			case *ssa.Store:
				if x.Addr != ssa.Value(a) {
					okAll = false // the address itself is stored somewhere
					break
				}
				pos := -1
				for k, ins := range b0.Instrs {
					if ins == ssa.Instruction(x) {
						pos = k
					}
				}
				if x.Block() != b0 || pos < 0 || pos > mkIdx {
					okAll = false
				}
			case *ssa.MakeClosure:
				g, _ := x.Fn.(*ssa.Function)
				for j, bd := range x.Bindings {
					if bd == ssa.Value(a) && (g == nil || freeVarsWritten(g)[j]) {
						okAll = false
					}
				}
			case *ssa.UnOp, *ssa.DebugRef:
				// loads and debug references do not change it
			default:
				okAll = false
			}
		}
		stable[i] = okAll
	}
	nObl, nUns, nTrusted := len(ex.obls), len(ex.unsupported), len(ex.trusted)
	_ = nTrusted
	pst := &St{cells: map[*Cell]Val{}, glob: map[string]Term{}}
	for _, g := range stateComponents {
		pst.glob[g] = ex.fresh("ctx_"+g, stateSorts[g])
	}
	pf := &Frame{ex: ex, fn: parent, vals: map[ssa.Value]Val{}, names: map[string]Val{}, cellNames: map[string]*Cell{}, nilFlags: map[ssa.Value]Term{}}
	pf.loops = map[*ssa.BasicBlock]*loopCtx{}
	for _, prm := range parent.Params {
		switch prm.Type().Underlying().(type) {
		case *types.Signature, *types.Pointer:
			pf.vals[prm] = &unknownVal{"parameter of the enclosing function"}
			continue
		}
		f := ex.fresh(prm.Name(), p.sorts.sortOf(prm.Type()))
		if r := p.rangeFact(f, prm.Type()); r.S != "true" {
			ex.emit("(assert %s)", r.S)
		}
		pf.vals[prm] = f
	}
	for _, fv := range parent.FreeVars {
		pf.vals[fv] = &unknownVal{"captured variable of the enclosing function"}
	}
	pf.entrySt = pst.clone()
	blk := &blockState{fr: pf, st: pst, reach: tTrue, b: b0}
	func() {
		defer func() { _ = recover() }()
		for i, ins := range b0.Instrs {
			if i >= mkIdx {
				break
			}
			if _, ok := ins.(*ssa.Phi); ok {
				continue
			}
			blk.exec(ins)
			if blk.done {
				break
			}
		}
	}()
	ex.obls = ex.obls[:nObl]
	prefixClean := len(ex.unsupported) == nUns
	ex.unsupported = ex.unsupported[:nUns]
	if !prefixClean {
		return out // something in the prefix is outside the engine's reach: use no context rather than a wrong one
	}
	for i, b := range mk.Bindings {
		if !stable[i] {
			continue
		}
		if ptr, ok := pf.vals[b].(*Ptr); ok && ptr.cell != nil && len(ptr.path) == 0 {
			if t, ok := blk.st.cells[ptr.cell].(Term); ok && t.Sort != "Nil" {
				out[i] = t
			}
		}
	}
	return out
}
