#!/bin/bash
# usage: try_seed.sh <patch> <demo_test.go or ""> <demo pkg dir rel (e.g. . or keeper)> <props...>
# confirms a seeded change on a scratch copy of /repo: builds, (optionally) runs the suite and the demo with and without the change, then runs the checks.
export GOFLAGS=-mod=mod GOPROXY=off GOSUMDB=off GOTOOLCHAIN=local
P=$1; DEMO=$2; DIR=$3; shift 3
D=/root/scratch-seed-$$
rm -rf $D; mkdir -p $D; rsync -a --exclude .git /repo/ $D/
if [ -n "$DEMO" ]; then
  cp $DEMO $D/$DIR/zz_seed_demo_test.go
  echo "--- demo on unchanged tree (must pass)"; (cd $D/$DIR && go test -vet=off -count=1 -timeout 300s -run "${DEMO_RUN:-.}" . 2>&1 | tail -3)
fi
(cd $D && patch -p1 -s < $P) || { echo "patch failed"; rm -rf $D; exit 9; }
(cd $D && go build ./... ) || { echo "does not compile"; rm -rf $D; exit 8; }
if [ -n "$DEMO" ]; then
  echo "--- demo on changed tree (must fail)"; (cd $D/$DIR && go test -vet=off -count=1 -timeout 300s -run "${DEMO_RUN:-.}" . 2>&1 | tail -4)
  rm -f $D/$DIR/zz_seed_demo_test.go
fi
if [ -n "$SUITE" ]; then echo "--- suite on changed tree"; (cd $D && go test -vet=off -count=1 ./... 2>&1 | tail -4); fi
for p in "$@"; do /verif/bin/govc check -p $p -repo $D 2>&1 | grep -E "VIOLATION|govc:" | cut -c1-260; done
rm -rf $D
