//go:build verif
// +build verif

// Contracts (comment-only; no code). Checked by /verif/engine (govc) against the go/ssa of this package.
package keeper

//@ func (Keeper).GetPrice
//@ props C07 C01

//@ ensures fee_is_priceOf: result == priceCoins(raw, ctxTime(ctx), consumer, binding.ServiceName, binding.Provider)

//@ func (Keeper).getMinDeposit
//@ props C14 C04
//@ requires price_nonneg: amt(pricing.Price, baseDenom) >= 0
//@ ensures is_minDepositOf: result == minDepositOf(pricing)

//@ func (Keeper).RefundDeposit
//@ props C03 C05
//@ modifies raw, bal
//@ preserves wf: WF(raw)
//@ preserves [C03] deposits_in_custody: depInv(raw, bal)
//@ ensures only_when_allowed: err == NoErr ==> (let b := bindOf(old(raw), serviceName, provider) in
//@      bindFound(old(raw), serviceName, provider) && addrEq(owner, b.Owner) && !b.Available && !coinsIsZero(b.Deposit)
//@      && ctxTime(ctx) >= b.DisabledTime + params.ArbitrationTimeLimit + params.ComplaintRetrospect)
//@ ensures whole_deposit_to_owner: err == NoErr ==> (let b := bindOf(old(raw), serviceName, provider) in
//@      bal == bankMove(old(bal), modAddr("service_deposit_account"), b.Owner, b.Deposit))
//@ ensures deposit_zeroed: err == NoErr ==> (let b := bindOf(old(raw), serviceName, provider) in
//@      raw == old(raw)[KBind(serviceName, provider) := enc_ServiceBinding(b[Deposit := noCoins])])
//@ ensures succeeds_when_allowed: (let b := bindOf(old(raw), serviceName, provider) in
//@      bindFound(old(raw), serviceName, provider) && addrEq(owner, b.Owner) && !b.Available && !coinsIsZero(b.Deposit)
//@      && ctxTime(ctx) >= b.DisabledTime + params.ArbitrationTimeLimit + params.ComplaintRetrospect
//@      && canPay(old(bal), modAddr("service_deposit_account"), b.Deposit)) ==> err == NoErr
//@ ensures error_changes_nothing: err != NoErr ==> raw == old(raw) && bal == old(bal)

//@ func (Keeper).validateDeposit
//@ props C20 C03
//@ ensures one_coin: err == NoErr ==> len(deposit) == 1

//@ func (Keeper).DisableServiceBinding
//@ props C03 C05 C15
//@ modifies raw
//@ preserves wf: WF(raw)
//@ preserves [C03] deposits_in_custody: depInv(raw, bal)
//@ ensures authorised: err == NoErr ==> (let b := bindOf(old(raw), serviceName, provider) in
//@      bindFound(old(raw), serviceName, provider) && addrEq(owner, b.Owner) && b.Available)
//@ ensures disabled_now: err == NoErr ==> (let b := bindOf(old(raw), serviceName, provider) in
//@      raw == old(raw)[KBind(serviceName, provider) := enc_ServiceBinding(b[Available := false][DisabledTime := ctxTime(ctx)])])
//@ ensures error_changes_nothing: err != NoErr ==> raw == old(raw)

//@ func (Keeper).EnableServiceBinding
//@ props C03 C05 C14 C15
//@ modifies raw, bal
//@ preserves wf: WF(raw)
//@ preserves [C03] deposits_in_custody: depInv(raw, bal)
//@ requires signer_ordinary: ordinary(owner)
//@ requires deposit_nonneg: forall d Str :: amt(deposit, d) >= 0
//@ ensures authorised: err == NoErr ==> (let b := bindOf(old(raw), serviceName, provider) in
//@      bindFound(old(raw), serviceName, provider) && addrEq(owner, b.Owner) && !b.Available)
//@ ensures [C14] min_deposit_on_enable: err == NoErr ==> isAllGTE(bindOf(raw, serviceName, provider).Deposit, minDepositOf(pricingOf(raw, serviceName, provider)))
//@ ensures [C03] owner_pays_deposit: err == NoErr ==> bal == (len(deposit) == 0 ? old(bal) : bankMove(old(bal), owner, depositAcc, deposit))
//@ ensures [C03] record_grows_by_deposit: err == NoErr ==> (let b := bindOf(old(raw), serviceName, provider) in
//@      raw == old(raw)[KBind(serviceName, provider) := enc_ServiceBinding(b[Deposit := (len(deposit) == 0 ? b.Deposit : coinsAdd(b.Deposit, deposit))][Available := true][DisabledTime := 0])])
//@ ensures error_changes_nothing: err != NoErr ==> raw == old(raw) && bal == old(bal)

//@ func (Keeper).AddServiceBinding
//@ props C03 C05 C14 C15
//@ modifies raw, bal
//@ preserves wf: WF(raw)
//@ preserves [C03] deposits_in_custody: depInv(raw, bal)
//@ requires signer_ordinary: ordinary(owner)
//@ requires deposit_nonneg: forall d Str :: amt(deposit, d) >= 0
//@ requires [C15] valid_uint: 0 <= qos && qos <= 18446744073709551615
//@ ensures [C15] new_and_defined: err == NoErr ==> defFound(old(raw), serviceName) && !bindFound(old(raw), serviceName, provider)
//@ ensures [C05] provider_owner_for_life: err == NoErr ==> (ownerFound(old(raw), provider) ==> addrEq(owner, ownerOf(old(raw), provider)))
//@ ensures [C14] min_deposit_on_bind: err == NoErr ==> isAllGTE(deposit, minDepositOf(parsePricing(pricing)))
//@ ensures [C03] owner_pays_deposit: err == NoErr ==> bal == bankMove(old(bal), owner, depositAcc, deposit)
//@ ensures [C15] records_written: err == NoErr ==> (let nb := mkServiceBinding(serviceName, provider, deposit, pricing, qos, options, true, 0, owner) in
//@      let r1 := old(raw)[KBind(serviceName, provider) := enc_ServiceBinding(nb)][KOwnerBind(owner, serviceName, provider) := emptyVal][KPricing(serviceName, provider) := enc_Pricing(parsePricing(pricing))] in
//@      raw == (len(ownerOf(old(raw), provider)) == 0 ? r1[KOwner(provider) := enc_BytesValue(mkBytesValue(owner))][KOwnerProv(owner, provider) := emptyVal] : r1))
//@ ensures error_changes_nothing: err != NoErr ==> raw == old(raw) && bal == old(bal)

//@ func (Keeper).UpdateServiceBinding
//@ props C03 C05 C14 C15
//@ modifies raw, bal
//@ preserves wf: WF(raw)
//@ requires signer_ordinary: ordinary(owner)
//@ requires deposit_nonneg: forall d Str :: amt(deposit, d) >= 0
//@ requires valid_uint: 0 <= qos && qos <= 18446744073709551615
//@ ensures [C05] authorised: err == NoErr ==> bindFound(old(raw), serviceName, provider) && addrEq(owner, bindOf(old(raw), serviceName, provider).Owner)
//@ ensures [C14] min_deposit_after_update: err == NoErr && bindOf(raw, serviceName, provider).Available && (qos != 0 || len(deposit) != 0 || len(pricing) != 0)
//@      ==> isAllGTE(bindOf(raw, serviceName, provider).Deposit, minDepositOf(pricingOf(raw, serviceName, provider)))
//@ ensures [C03] owner_pays_deposit: err == NoErr ==> bal == (len(deposit) == 0 ? old(bal) : bankMove(old(bal), owner, depositAcc, deposit))
//@ ensures [C15] record_updated: err == NoErr ==> (let b := bindOf(old(raw), serviceName, provider) in
//@      let nb := b[QoS := (qos != 0 ? qos : b.QoS)][Deposit := (len(deposit) == 0 ? b.Deposit : coinsAdd(b.Deposit, deposit))][Pricing := (len(pricing) != 0 ? pricing : b.Pricing)] in
//@      let r1 := (len(pricing) != 0 ? old(raw)[KPricing(serviceName, provider) := enc_Pricing(parsePricing(pricing))] : old(raw)) in
//@      raw == ((qos != 0 || len(deposit) != 0 || len(pricing) != 0) ? r1[KBind(serviceName, provider) := enc_ServiceBinding(nb)] : r1))
//@ ensures [C03] deposits_in_custody_kept: err == NoErr && depInv(old(raw), old(bal)) ==> depInv(raw, bal)

//@ func (Keeper).Slash
//@ props C04 C03 C14
//@ modifies raw, bal, supply
//@ preserves wf: WF(raw)
//@ preserves [C03] deposits_in_custody: depInv(raw, bal)
//@ requires request_and_binding_exist: reqFound(raw, requestID) && ctxFound(raw, reqOf(raw, requestID).RequestContextId) &&
//@      bindFound(raw, ctxOf(raw, reqOf(raw, requestID).RequestContextId).ServiceName, reqOf(raw, requestID).Provider)
//@ ensures [C04] burns_fraction_of_current_deposit: err == NoErr ==> (let s := ctxOf(old(raw), reqOf(old(raw), requestID).RequestContextId).ServiceName in let p := reqOf(old(raw), requestID).Provider in
//@      let b := bindOf(old(raw), s, p) in let burn := newCoins(oneCoin(baseDenom, decTrunc(decMul(decFromInt(amt(b.Deposit, baseDenom)), params.SlashFraction)))) in
//@      bal == bankBurn(old(bal), depositAcc, burn) && supply == supplyBurn(old(supply), burn) &&
//@      bindOf(raw, s, p).Deposit == coinsSub(b.Deposit, burn))
//@ ensures [C04,C14] auto_disable: err == NoErr ==> (let s := ctxOf(old(raw), reqOf(old(raw), requestID).RequestContextId).ServiceName in let p := reqOf(old(raw), requestID).Provider in
//@      let b := bindOf(old(raw), s, p) in let nb := bindOf(raw, s, p) in
//@      ((b.Available && !isAllGTE(nb.Deposit, minDepositOf(pricingOf(old(raw), s, p)))) ? (!nb.Available && nb.DisabledTime == ctxTime(ctx)) : (nb.Available == b.Available && nb.DisabledTime == b.DisabledTime)))
//@ ensures only_that_binding: err == NoErr ==> (let s := ctxOf(old(raw), reqOf(old(raw), requestID).RequestContextId).ServiceName in let p := reqOf(old(raw), requestID).Provider in
//@      raw == old(raw)[KBind(s, p) := raw[KBind(s, p)]] && bindFound(raw, s, p))
//@ ensures error_changes_nothing: err != NoErr ==> raw == old(raw) && bal == old(bal) && supply == old(supply)
