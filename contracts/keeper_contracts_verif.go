//go:build verif
// +build verif

// Contracts (comment-only; no code). Checked by /verif/engine (govc) against the go/ssa of this package.
package keeper

//@ func (Keeper).GetPrice
//@ props C07 C01

//@ ensures fee_is_priceOf: result == priceCoins(raw, ctxTime(ctx), consumer, binding.ServiceName, binding.Provider)
