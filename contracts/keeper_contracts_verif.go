//go:build verif
// +build verif

// Contracts (comment-only; no code). Checked by /verif/engine (govc) against the go/ssa of this package.
package keeper

//@ func (Keeper).GetPrice
//@ vars (keeper.Keeper).GetPrice: k=github.com/irismod/service/keeper.Keeper#0 ctx=github.com/cosmos/cosmos-sdk/types.Context#0 consumer=github.com/cosmos/cosmos-sdk/types.AccAddress#0 binding=github.com/irismod/service/types.ServiceBinding#0 pricing=github.com/irismod/service/types.Pricing#0 discountByTime=github.com/cosmos/cosmos-sdk/types.Dec#0 discountByVolume=github.com/cosmos/cosmos-sdk/types.Dec#1 baseDenom=string#0 basePrice=github.com/cosmos/cosmos-sdk/types.Int#0 price=github.com/cosmos/cosmos-sdk/types.Dec#2
//@ props C07 C01

//@ ensures fee_is_priceOf: result == priceCoins(raw, ctxTime(ctx), consumer, binding.ServiceName, binding.Provider)

//@ func (Keeper).getMinDeposit
//@ vars (keeper.Keeper).getMinDeposit: k=github.com/irismod/service/keeper.Keeper#0 ctx=github.com/cosmos/cosmos-sdk/types.Context#0 pricing=github.com/irismod/service/types.Pricing#0 minDepositMultiple=github.com/cosmos/cosmos-sdk/types.Int#0 minDepositParam=github.com/cosmos/cosmos-sdk/types.Coins#0 baseDenom=string#0 price=github.com/cosmos/cosmos-sdk/types.Int#1 minDeposit=github.com/cosmos/cosmos-sdk/types.Coins#1
//@ props C14 C04
//@ requires price_nonneg: amt(pricing.Price, baseDenom) >= 0
//@ ensures is_minDepositOf: result == minDepositOf(pricing)

//@ func (Keeper).RefundDeposit
//@ vars (keeper.Keeper).RefundDeposit: k=github.com/irismod/service/keeper.Keeper#0 ctx=github.com/cosmos/cosmos-sdk/types.Context#0 serviceName=string#0 provider=github.com/cosmos/cosmos-sdk/types.AccAddress#0 owner=github.com/cosmos/cosmos-sdk/types.AccAddress#1 binding=github.com/irismod/service/types.ServiceBinding#0 found=bool#0 refundableTime=time.Time#0 currentTime=time.Time#1 err=error#0
//@ props C03 C05
//@ modifies raw, bal
//@ preserves wf: WF(raw)
//@ preserves [C03] deposits_in_custody: depInv(raw, bal)
//@ ensures only_when_allowed: err == NoErr ==> (let b := bindOf(old(raw), serviceName, provider) in
//@      bindFound(old(raw), serviceName, provider) && addrEq(owner, b.Owner) && !b.Available && !coinsIsZero(b.Deposit)
//@      && ctxTime(ctx) >= b.DisabledTime + params.ArbitrationTimeLimit + params.ComplaintRetrospect)
//@ ensures whole_deposit_to_owner: err == NoErr ==> (let b := bindOf(old(raw), serviceName, provider) in
//@      bal == bankMove(old(bal), modAddr("service_deposit_account"), b.Owner, b.Deposit))
//@ ensures deposit_zeroed: err == NoErr ==> (let b := bindOf(old(raw), serviceName, provider) in
//@      raw == old(raw)[KBind(serviceName, provider) := enc_ServiceBinding(b[Deposit := noCoins])])
//@ ensures succeeds_when_allowed: (let b := bindOf(old(raw), serviceName, provider) in
//@      bindFound(old(raw), serviceName, provider) && addrEq(owner, b.Owner) && !b.Available && !coinsIsZero(b.Deposit)
//@      && ctxTime(ctx) >= b.DisabledTime + params.ArbitrationTimeLimit + params.ComplaintRetrospect
//@      && canPay(old(bal), modAddr("service_deposit_account"), b.Deposit)) ==> err == NoErr
//@ ensures error_changes_nothing: err != NoErr ==> raw == old(raw) && bal == old(bal)
//@ ensures [C15] definitions_bindings_and_provider_owners_are_for_life: forLife(old(raw), raw)

//@ func (Keeper).validateDeposit
//@ vars (keeper.Keeper).validateDeposit: k=github.com/irismod/service/keeper.Keeper#0 ctx=github.com/cosmos/cosmos-sdk/types.Context#0 deposit=github.com/cosmos/cosmos-sdk/types.Coins#0 baseDenom=string#0 token=github.com/irismod/service/types.TokenI#0 err=error#0
//@ props C20 C03
//@ ensures one_coin: err == NoErr ==> len(deposit) == 1

//@ func (Keeper).DisableServiceBinding
//@ vars (keeper.Keeper).DisableServiceBinding: k=github.com/irismod/service/keeper.Keeper#0 ctx=github.com/cosmos/cosmos-sdk/types.Context#0 serviceName=string#0 provider=github.com/cosmos/cosmos-sdk/types.AccAddress#0 owner=github.com/cosmos/cosmos-sdk/types.AccAddress#1 binding=github.com/irismod/service/types.ServiceBinding#0 found=bool#0
//@ props C03 C05 C15
//@ modifies raw
//@ preserves wf: WF(raw)
//@ preserves [C03] deposits_in_custody: depInv(raw, bal)
//@ ensures authorised: err == NoErr ==> (let b := bindOf(old(raw), serviceName, provider) in
//@      bindFound(old(raw), serviceName, provider) && addrEq(owner, b.Owner) && b.Available)
//@ ensures disabled_now: err == NoErr ==> (let b := bindOf(old(raw), serviceName, provider) in
//@      raw == old(raw)[KBind(serviceName, provider) := enc_ServiceBinding(b[Available := false][DisabledTime := ctxTime(ctx)])])
//@ ensures error_changes_nothing: err != NoErr ==> raw == old(raw)
//@ ensures [C15] definitions_bindings_and_provider_owners_are_for_life: forLife(old(raw), raw)

//@ func (Keeper).EnableServiceBinding
//@ vars (keeper.Keeper).EnableServiceBinding: k=github.com/irismod/service/keeper.Keeper#0 ctx=github.com/cosmos/cosmos-sdk/types.Context#0 serviceName=string#0 provider=github.com/cosmos/cosmos-sdk/types.AccAddress#0 deposit=github.com/cosmos/cosmos-sdk/types.Coins#0 owner=github.com/cosmos/cosmos-sdk/types.AccAddress#1 binding=github.com/irismod/service/types.ServiceBinding#0 found=bool#0 err=error#0 minDeposit=github.com/cosmos/cosmos-sdk/types.Coins#1 err=error#1
//@ props C03 C05 C14 C15
//@ modifies raw, bal
//@ preserves wf: WF(raw)
//@ preserves [C03] deposits_in_custody: depInv(raw, bal)
//@ requires signer_ordinary: ordinary(owner)
//@ requires a2_deposit_valid: len(deposit) == 0 || coinsValid(deposit)
//@ requires deposit_nonneg: forall d Str :: amt(deposit, d) >= 0
//@ ensures authorised: err == NoErr ==> (let b := bindOf(old(raw), serviceName, provider) in
//@      bindFound(old(raw), serviceName, provider) && addrEq(owner, b.Owner) && !b.Available)
//@ ensures [C14] min_deposit_on_enable: err == NoErr ==> isAllGTE(bindOf(raw, serviceName, provider).Deposit, minDepositOf(pricingOf(raw, serviceName, provider)))
//@ ensures [C03] owner_pays_deposit: err == NoErr ==> bal == (len(deposit) == 0 ? old(bal) : bankMove(old(bal), owner, depositAcc, deposit))
//@ ensures [C03] record_grows_by_deposit: err == NoErr ==> (let b := bindOf(old(raw), serviceName, provider) in
//@      raw == old(raw)[KBind(serviceName, provider) := enc_ServiceBinding(b[Deposit := (len(deposit) == 0 ? b.Deposit : coinsAdd(b.Deposit, deposit))][Available := true][DisabledTime := 0])])
//@ ensures error_changes_nothing: err != NoErr ==> raw == old(raw) && bal == old(bal)
//@ ensures [C15] definitions_bindings_and_provider_owners_are_for_life: forLife(old(raw), raw)

//@ func (Keeper).AddServiceBinding
//@ vars (keeper.Keeper).AddServiceBinding: k=github.com/irismod/service/keeper.Keeper#0 ctx=github.com/cosmos/cosmos-sdk/types.Context#0 serviceName=string#0 provider=github.com/cosmos/cosmos-sdk/types.AccAddress#0 deposit=github.com/cosmos/cosmos-sdk/types.Coins#0 pricing=string#1 qos=uint64#0 options=string#2 owner=github.com/cosmos/cosmos-sdk/types.AccAddress#1 found=bool#0 found=bool#1 currentOwner=github.com/cosmos/cosmos-sdk/types.AccAddress#2 found=bool#2 err=error#0 maxReqTimeout=int64#0 err=error#1 parsedPricing=github.com/irismod/service/types.Pricing#0 err=error#2 err=error#3 minDeposit=github.com/cosmos/cosmos-sdk/types.Coins#1 err=error#4 available=bool#3 disabledTime=time.Time#0 svcBinding=github.com/irismod/service/types.ServiceBinding#0
//@ props C03 C05 C14 C15 C07
//@ modifies raw, bal
//@ preserves wf: WF(raw)
//@ preserves [C03] deposits_in_custody: depInv(raw, bal)
//@ requires signer_ordinary: ordinary(owner)
//@ requires a2_qos_positive: qos > 0
//@ requires a2_deposit_valid: coinsValid(deposit)
//@ requires deposit_nonneg: forall d Str :: amt(deposit, d) >= 0
//@ requires [C15] valid_uint: 0 <= qos && qos <= 18446744073709551615
//@ ensures [C15] new_and_defined: err == NoErr ==> defFound(old(raw), serviceName) && !bindFound(old(raw), serviceName, provider)
//@ ensures [C05] provider_owner_for_life: err == NoErr ==> (ownerFound(old(raw), provider) ==> addrEq(owner, ownerOf(old(raw), provider)))
//@ ensures [C14] min_deposit_on_bind: err == NoErr ==> isAllGTE(deposit, minDepositOf(parsePricing(pricing)))
//@ ensures [C03] owner_pays_deposit: err == NoErr ==> bal == bankMove(old(bal), owner, depositAcc, deposit)
//@ ensures [C15] records_written: err == NoErr ==> (let nb := mkServiceBinding(serviceName, provider, deposit, pricing, qos, options, true, 0, owner) in
//@      let r1 := old(raw)[KBind(serviceName, provider) := enc_ServiceBinding(nb)][KOwnerBind(owner, serviceName, provider) := emptyVal][KPricing(serviceName, provider) := enc_Pricing(parsePricing(pricing))] in
//@      raw == (len(ownerOf(old(raw), provider)) == 0 ? r1[KOwner(provider) := enc_BytesValue(mkBytesValue(owner))][KOwnerProv(owner, provider) := emptyVal] : r1))
//@ ensures error_changes_nothing: err != NoErr ==> raw == old(raw) && bal == old(bal)
//@ requires a2_provider_present: len(provider) > 0
//@ requires a2_owner_present: len(owner) > 0
//@ ensures [C15] definitions_bindings_and_provider_owners_are_for_life: forLife(old(raw), raw)

//@ func (Keeper).UpdateServiceBinding
//@ vars (keeper.Keeper).UpdateServiceBinding: k=github.com/irismod/service/keeper.Keeper#0 ctx=github.com/cosmos/cosmos-sdk/types.Context#0 serviceName=string#0 provider=github.com/cosmos/cosmos-sdk/types.AccAddress#0 deposit=github.com/cosmos/cosmos-sdk/types.Coins#0 pricing=string#1 qos=uint64#0 options=string#2 owner=github.com/cosmos/cosmos-sdk/types.AccAddress#1 binding=github.com/irismod/service/types.ServiceBinding#0 found=bool#0 updated=bool#1 maxReqTimeout=int64#0 err=error#0 parsedPricing=github.com/irismod/service/types.Pricing#0 err=error#1 err=error#2 minDeposit=github.com/cosmos/cosmos-sdk/types.Coins#1 err=error#3
//@ props C03 C05 C14 C15 C07
//@ modifies raw, bal
//@ preserves wf: WF(raw)
//@ requires signer_ordinary: ordinary(owner)
//@ requires a2_deposit_valid: len(deposit) == 0 || coinsValid(deposit)
//@ requires deposit_nonneg: forall d Str :: amt(deposit, d) >= 0
//@ requires valid_uint: 0 <= qos && qos <= 18446744073709551615
//@ ensures [C05] authorised: err == NoErr ==> bindFound(old(raw), serviceName, provider) && addrEq(owner, bindOf(old(raw), serviceName, provider).Owner)
//@ ensures [C14] min_deposit_after_update: err == NoErr && bindOf(raw, serviceName, provider).Available && (qos != 0 || len(deposit) != 0 || len(pricing) != 0)
//@      ==> isAllGTE(bindOf(raw, serviceName, provider).Deposit, minDepositOf(pricingOf(raw, serviceName, provider)))
//@ ensures [C03] owner_pays_deposit: err == NoErr ==> bal == (len(deposit) == 0 ? old(bal) : bankMove(old(bal), owner, depositAcc, deposit))
//@ ensures [C15] record_updated: err == NoErr ==> (let b := bindOf(old(raw), serviceName, provider) in
//@      let nb := b[QoS := (qos != 0 ? qos : b.QoS)][Deposit := (len(deposit) == 0 ? b.Deposit : coinsAdd(b.Deposit, deposit))][Pricing := (len(pricing) != 0 ? pricing : b.Pricing)] in
//@      let r1 := (len(pricing) != 0 ? old(raw)[KPricing(serviceName, provider) := enc_Pricing(parsePricing(pricing))] : old(raw)) in
//@      raw == ((qos != 0 || len(deposit) != 0 || len(pricing) != 0) ? r1[KBind(serviceName, provider) := enc_ServiceBinding(nb)] : r1))
//@ ensures [C03] deposits_in_custody_kept: err == NoErr && depInv(old(raw), old(bal)) ==> depInv(raw, bal)
//@ ensures [C05] error_moves_no_coins: err != NoErr ==> bal == old(bal)
//@ ensures [C15] definitions_bindings_and_provider_owners_are_for_life: forLife(old(raw), raw)

//@ func (Keeper).Slash
//@ vars (keeper.Keeper).Slash: k=github.com/irismod/service/keeper.Keeper#0 ctx=github.com/cosmos/cosmos-sdk/types.Context#0 requestID=github.com/tendermint/tendermint/libs/bytes.HexBytes#0 request=github.com/irismod/service/types.Request#0 binding=github.com/irismod/service/types.ServiceBinding#0 slashFraction=github.com/cosmos/cosmos-sdk/types.Dec#0 baseDenom=string#0 depositAmt=github.com/cosmos/cosmos-sdk/types.Int#0 slashedAmt=github.com/cosmos/cosmos-sdk/types.Int#1 slashedCoins=github.com/cosmos/cosmos-sdk/types.Coins#0 deposit=github.com/cosmos/cosmos-sdk/types.Coins#1 hasNeg=bool#0 err=error#0 minDeposit=github.com/cosmos/cosmos-sdk/types.Coins#2
//@ props C04 C03 C14
//@ modifies raw, bal, supply
//@ preserves wf: WF(raw)
//@ preserves [C03] deposits_in_custody: depInv(raw, bal)
//@ requires request_and_binding_exist: reqFound(raw, requestID) && ctxFound(raw, reqOf(raw, requestID).RequestContextId) &&
//@      bindFound(raw, ctxOf(raw, reqOf(raw, requestID).RequestContextId).ServiceName, reqOf(raw, requestID).Provider)
//@ ensures [C04] burns_fraction_of_current_deposit: err == NoErr ==> (let s := ctxOf(old(raw), reqOf(old(raw), requestID).RequestContextId).ServiceName in let p := reqOf(old(raw), requestID).Provider in
//@      let b := bindOf(old(raw), s, p) in let burn := newCoins(oneCoin(baseDenom, decTrunc(decMul(decFromInt(amt(b.Deposit, baseDenom)), params.SlashFraction)))) in
//@      bal == bankBurn(old(bal), depositAcc, burn) && supply == supplyBurn(old(supply), burn) &&
//@      bindOf(raw, s, p).Deposit == coinsSub(b.Deposit, burn))
//@ ensures [C04,C14] auto_disable: err == NoErr ==> (let s := ctxOf(old(raw), reqOf(old(raw), requestID).RequestContextId).ServiceName in let p := reqOf(old(raw), requestID).Provider in
//@      let b := bindOf(old(raw), s, p) in let nb := bindOf(raw, s, p) in
//@      ((b.Available && !isAllGTE(nb.Deposit, minDepositOf(pricingOf(old(raw), s, p)))) ? (!nb.Available && nb.DisabledTime == ctxTime(ctx)) : (nb.Available == b.Available && nb.DisabledTime == b.DisabledTime)))
//@ ensures only_that_binding: err == NoErr ==> (let s := ctxOf(old(raw), reqOf(old(raw), requestID).RequestContextId).ServiceName in let p := reqOf(old(raw), requestID).Provider in
//@      raw == old(raw)[KBind(s, p) := raw[KBind(s, p)]] && bindFound(raw, s, p))
//@ ensures error_changes_nothing: err != NoErr ==> raw == old(raw) && bal == old(bal) && supply == old(supply)
//@ ensures [C04] fails_only_if_the_burn_cannot_be_made: (err == NoErr) <==> (!hasNeg(bindOf(old(raw), reqSvc(old(raw), requestID), reqProv(old(raw), requestID)).Deposit, slashBurn(old(raw), requestID)) &&
//@      canPay(old(bal), depositAcc, slashBurn(old(raw), requestID)))
//@ ensures [C15] definitions_bindings_and_provider_owners_are_for_life: forLife(old(raw), raw)

//@ func (Keeper).GetExchangedPrice
//@ vars (keeper.Keeper).GetExchangedPrice: k=github.com/irismod/service/keeper.Keeper#0 ctx=github.com/cosmos/cosmos-sdk/types.Context#0 consumer=github.com/cosmos/cosmos-sdk/types.AccAddress#0 binding=github.com/irismod/service/types.ServiceBinding#0 pricing=github.com/irismod/service/types.Pricing#0 discountByTime=github.com/cosmos/cosmos-sdk/types.Dec#0 discountByVolume=github.com/cosmos/cosmos-sdk/types.Dec#1 baseDenom=string#0 rawDenom=string#1 rawPrice=github.com/cosmos/cosmos-sdk/types.Int#0 price=github.com/cosmos/cosmos-sdk/types.Dec#2 realPrice=github.com/cosmos/cosmos-sdk/types.Dec#3 exchangeRateSvc=*github.com/irismod/service/types.ModuleService#0 exist=bool#0 inputBody=string#2 input=string#3 err=error#0 result=string#4 output=string#5 code=string#6 msg=string#7 outputBody=string#8 err=error#1 rate=github.com/cosmos/cosmos-sdk/types.Dec#4 err=error#2
//@ props C07 C01 C06
//@ requires has_price: len(pricingOf(raw, binding.ServiceName, binding.Provider).Price) >= 1
//@ ensures [C07,C01] charged_price_is_the_fee: err == NoErr && pricingOf(raw, binding.ServiceName, binding.Provider).Price[0].Denom == baseDenom
//@      ==> result0 == priceCoins(raw, ctxTime(ctx), consumer, binding.ServiceName, binding.Provider)
//@ ensures [C11] no_error_in_base_denom: pricingOf(raw, binding.ServiceName, binding.Provider).Price[0].Denom == baseDenom ==> err == NoErr
//@ checks [C07,C01] charged_price_is_the_fee_when_quoted_in_another_token: err == NoErr && pricingOf(raw, binding.ServiceName, binding.Provider).Price[0].Denom != baseDenom
//@      ==> result0 == priceCoins(raw, ctxTime(ctx), consumer, binding.ServiceName, binding.Provider)

// ---------------------------------------------------------------- request-context lifecycle (C09, C05, C10, C11)
//@ func (Keeper).CheckAuthority
//@ vars (keeper.Keeper).CheckAuthority: k=github.com/irismod/service/keeper.Keeper#0 ctx=github.com/cosmos/cosmos-sdk/types.Context#0 consumer=github.com/cosmos/cosmos-sdk/types.AccAddress#0 requestContextID=github.com/tendermint/tendermint/libs/bytes.HexBytes#0 checkModule=bool#0 requestContext=github.com/irismod/service/types.RequestContext#0 found=bool#1
//@ props C05 C09
//@ ensures [C05] only_consumer: err == NoErr ==> ctxFound(raw, requestContextID) && addrEq(consumer, ctxOf(raw, requestContextID).Consumer)
//@ ensures [C05] never_a_module_context: err == NoErr && checkModule ==> len(ctxOf(raw, requestContextID).ModuleName) == 0
//@ ensures complete: ctxFound(raw, requestContextID) && addrEq(consumer, ctxOf(raw, requestContextID).Consumer) && (!checkModule || len(ctxOf(raw, requestContextID).ModuleName) == 0) ==> err == NoErr

//@ func (Keeper).PauseRequestContext
//@ vars (keeper.Keeper).PauseRequestContext: k=github.com/irismod/service/keeper.Keeper#0 ctx=github.com/cosmos/cosmos-sdk/types.Context#0 requestContextID=github.com/tendermint/tendermint/libs/bytes.HexBytes#0 consumer=github.com/cosmos/cosmos-sdk/types.AccAddress#0 requestContext=github.com/irismod/service/types.RequestContext#0 found=bool#0 err=error#0
//@ preserves [C01,C02,C16,C11,C04] pending_requests_stay_well_formed: actInv(raw)
//@ props C09 C05
//@ preserves [C16] both_pending_indexes_list_the_same_requests: idxInv(raw)
//@ preserves [C16] no_orphan_request_or_response_record: recInv(raw)
//@ preserves [C10] never_more_batches_than_the_largest_total: cadInv(raw, ghostMaxTot)
//@ preserves [C11] no_event_in_the_past: futInv(raw, ctxHeight(ctx))
//@ preserves [C12,C16,C08,C04] open_batches_count_their_pending_requests: cntInv(raw)
//@ preserves [C11] queues_stay_well_formed: schedInv(raw)
//@ modifies raw
//@ ensures [C09] only_repeated_running: err == NoErr ==> (let c := ctxOf(old(raw), requestContextID) in ctxFound(old(raw), requestContextID) && c.Repeated && c.State == RUNNING)
//@ ensures [C05] module_context_needs_consumer: err == NoErr ==> (let c := ctxOf(old(raw), requestContextID) in len(c.ModuleName) > 0 ==> addrEq(consumer, c.Consumer))
//@ ensures [C09] becomes_paused_nothing_else: err == NoErr ==> (let c := ctxOf(old(raw), requestContextID) in raw == old(raw)[KCtx(requestContextID) := enc_RequestContext(c[State := PAUSED])])
//@ ensures error_changes_nothing: err != NoErr ==> raw == old(raw)

//@ func (Keeper).StartRequestContext
//@ vars (keeper.Keeper).StartRequestContext: k=github.com/irismod/service/keeper.Keeper#0 ctx=github.com/cosmos/cosmos-sdk/types.Context#0 requestContextID=github.com/tendermint/tendermint/libs/bytes.HexBytes#0 consumer=github.com/cosmos/cosmos-sdk/types.AccAddress#0 requestContext=github.com/irismod/service/types.RequestContext#0 found=bool#0 err=error#0 needsNewBatch=bool#1 remaining=bool#2
//@ preserves [C01,C02,C16,C11,C04] pending_requests_stay_well_formed: actInv(raw)
//@ props C09 C05 C10 C11 C16 C08 C04 C02 C01
//@ preserves [C16] both_pending_indexes_list_the_same_requests: idxInv(raw)
//@ preserves [C16] no_orphan_request_or_response_record: recInv(raw)
//@ requires [C10] never_more_batches_than_the_largest_total: cadInv(raw, ghostMaxTot)
//@ ensures [C10] never_more_batches_than_the_largest_total_kept: err == NoErr ==> (let c := ctxOf(old(raw), requestContextID) in
//@      (hasExp(old(raw), requestContextID) || hasNew(old(raw), requestContextID) || (c.Repeated ? c.BatchCounter < effTotal(c) : c.BatchCounter == 0)) ==> cadInv(raw, ghostMaxTot))
//@ ensures [C10] never_more_batches_than_the_largest_total_kept_when_restarted_after_the_last_batch: err == NoErr ==> (let c := ctxOf(old(raw), requestContextID) in
//@      !(hasExp(old(raw), requestContextID) || hasNew(old(raw), requestContextID) || (c.Repeated ? c.BatchCounter < effTotal(c) : c.BatchCounter == 0)) ==> cadInv(raw, ghostMaxTot))
//@ preserves [C11] no_event_in_the_past: futInv(raw, ctxHeight(ctx))
//@ preserves [C12,C16,C08,C04] open_batches_count_their_pending_requests: cntInv(raw)
//@ preserves [C11] queues_stay_well_formed: schedInv(raw)
//@ modifies raw
//@ ensures [C09] only_paused: err == NoErr ==> ctxFound(old(raw), requestContextID) && ctxOf(old(raw), requestContextID).State == PAUSED
//@ ensures [C05] module_context_needs_consumer: err == NoErr ==> (let c := ctxOf(old(raw), requestContextID) in len(c.ModuleName) > 0 ==> addrEq(consumer, c.Consumer))
//@ ensures [C09,C10,C11,C16,C08] running_and_requeued_iff_nothing_pending: err == NoErr ==> (let c := ctxOf(old(raw), requestContextID) in
//@      let r1 := old(raw)[KCtx(requestContextID) := enc_RequestContext(c[State := RUNNING])] in
//@      raw == ((!hasExp(old(raw), requestContextID) && !hasNew(old(raw), requestContextID))
//@               ? r1[KNewQ(ctxHeight(ctx), requestContextID) := idVal(requestContextID)][KNewH(requestContextID) := hVal(ctxHeight(ctx))] : r1))
//@ ensures error_changes_nothing: err != NoErr ==> raw == old(raw)
//@ ensures [C10] never_queues_a_batch_beyond_the_total: err == NoErr ==> (let c := ctxOf(old(raw), requestContextID) in
//@      (!hasExp(old(raw), requestContextID) && !hasNew(old(raw), requestContextID)) ==> (c.Repeated ? (c.RepeatedTotal < 0 || wrap_i64(c.BatchCounter) < c.RepeatedTotal) : c.BatchCounter == 0))

//@ func (Keeper).KillRequestContext
//@ vars (keeper.Keeper).KillRequestContext: k=github.com/irismod/service/keeper.Keeper#0 ctx=github.com/cosmos/cosmos-sdk/types.Context#0 requestContextID=github.com/tendermint/tendermint/libs/bytes.HexBytes#0 consumer=github.com/cosmos/cosmos-sdk/types.AccAddress#0 requestContext=github.com/irismod/service/types.RequestContext#0 found=bool#0 err=error#0
//@ preserves [C01,C02,C16,C11,C04] pending_requests_stay_well_formed: actInv(raw)
//@ props C09 C05
//@ preserves [C16] both_pending_indexes_list_the_same_requests: idxInv(raw)
//@ preserves [C16] no_orphan_request_or_response_record: recInv(raw)
//@ preserves [C10] never_more_batches_than_the_largest_total: cadInv(raw, ghostMaxTot)
//@ preserves [C11] no_event_in_the_past: futInv(raw, ctxHeight(ctx))
//@ preserves [C12,C16,C08,C04] open_batches_count_their_pending_requests: cntInv(raw)
//@ preserves [C11] queues_stay_well_formed: schedInv(raw)
//@ modifies raw
//@ ensures [C09] only_repeated: err == NoErr ==> ctxFound(old(raw), requestContextID) && ctxOf(old(raw), requestContextID).Repeated
//@ ensures [C05] module_context_needs_consumer: err == NoErr ==> (let c := ctxOf(old(raw), requestContextID) in len(c.ModuleName) > 0 ==> addrEq(consumer, c.Consumer))
//@ ensures [C09] becomes_completed_nothing_else: err == NoErr ==> (let c := ctxOf(old(raw), requestContextID) in raw == old(raw)[KCtx(requestContextID) := enc_RequestContext(c[State := COMPLETED])])
//@ ensures error_changes_nothing: err != NoErr ==> raw == old(raw)

//@ func (Keeper).UpdateRequestContext
//@ vars (keeper.Keeper).UpdateRequestContext: k=github.com/irismod/service/keeper.Keeper#0 ctx=github.com/cosmos/cosmos-sdk/types.Context#0 requestContextID=github.com/tendermint/tendermint/libs/bytes.HexBytes#0 providers=[]github.com/cosmos/cosmos-sdk/types.AccAddress#0 respThreshold=uint32#0 serviceFeeCap=github.com/cosmos/cosmos-sdk/types.Coins#0 timeout=int64#0 repeatedFreq=uint64#0 repeatedTotal=int64#1 consumer=github.com/cosmos/cosmos-sdk/types.AccAddress#0 requestContext=github.com/irismod/service/types.RequestContext#0 found=bool#0 err=error#0 err=error#1 err=error#2 maxRequestTimeout=int64#2
//@ preserves [C01,C02,C16,C11,C04] pending_requests_stay_well_formed: actInv(raw)
//@ props C09 C05 C10
//@ preserves [C16] both_pending_indexes_list_the_same_requests: idxInv(raw)
//@ preserves [C16] no_orphan_request_or_response_record: recInv(raw)
//@ requires [C10] never_more_batches_than_the_largest_total: cadInv(raw, ghostMaxTot)
//@ ensures [C10] never_more_batches_than_the_largest_total_kept: err == NoErr ==> cadInv(raw, maxNext(ghostMaxTot, raw))
//@ preserves [C11] no_event_in_the_past: futInv(raw, ctxHeight(ctx))
//@ preserves [C12,C16,C08,C04] open_batches_count_their_pending_requests: cntInv(raw)
//@ preserves [C11] queues_stay_well_formed: schedInv(raw)
//@ modifies raw
//@ requires [C09] stored_context_in_range: ctxFound(raw, requestContextID) ==> rng_RequestContext(ctxOf(raw, requestContextID))
//@ requires validated: timeout >= 0
//@ requires a12_position_index_fits: len(providers) <= 32767
//@ requires counter_fits_int64: ctxFound(raw, requestContextID) ==> ctxOf(raw, requestContextID).BatchCounter < 9223372036854775808
//@ ensures [C09] never_a_completed_context: err == NoErr ==> ctxFound(old(raw), requestContextID) && ctxOf(old(raw), requestContextID).State != COMPLETED
//@ ensures [C05] module_context_needs_consumer: err == NoErr ==> (let c := ctxOf(old(raw), requestContextID) in len(c.ModuleName) > 0 ==> addrEq(consumer, c.Consumer))
//@ ensures [C09] only_that_record: err == NoErr ==> raw == old(raw)[KCtx(requestContextID) := raw[KCtx(requestContextID)]] && ctxFound(raw, requestContextID)
//@ ensures [C09] identity_state_and_counter_unchanged: err == NoErr ==> (let c := ctxOf(old(raw), requestContextID) in let n := ctxOf(raw, requestContextID) in
//@      sameIdentity(c, n) && n.State == c.State && n.BatchCounter == c.BatchCounter && n.BatchState == c.BatchState &&
//@      n.BatchRequestCount == c.BatchRequestCount && n.BatchResponseCount == c.BatchResponseCount && n.BatchResponseThreshold == c.BatchResponseThreshold)
//@ ensures [C10] frequency_not_below_timeout: err == NoErr ==> (let n := ctxOf(raw, requestContextID) in n.RepeatedFrequency >= n.Timeout)
//@ ensures [C10] total_not_below_counter: err == NoErr ==> (let n := ctxOf(raw, requestContextID) in let c := ctxOf(old(raw), requestContextID) in
//@      n.RepeatedTotal == c.RepeatedTotal || (n.RepeatedTotal == repeatedTotal && (repeatedTotal < 1 || repeatedTotal >= c.BatchCounter)))
//@ ensures error_changes_nothing: err != NoErr ==> raw == old(raw)

// ---------------------------------------------------------------- earned fees (C13, C01)
//@ func (Keeper).GetEarnedFees
//@ vars (keeper.Keeper).GetEarnedFees: k=github.com/irismod/service/keeper.Keeper#0 ctx=github.com/cosmos/cosmos-sdk/types.Context#0 provider=github.com/cosmos/cosmos-sdk/types.AccAddress#0 fees=github.com/cosmos/cosmos-sdk/types.Coins#0 found=bool#0 store=github.com/cosmos/cosmos-sdk/types.KVStore#0 iterator=github.com/cosmos/cosmos-sdk/types.Iterator#0 balance=github.com/cosmos/cosmos-sdk/types.Coin#0
//@ props C13 C17
//@ loop 0 invariant pos_in_range: 0 <= iterator_pos && iterator_pos <= itCount(iterator_snap, iterator_pfx)
//@ loop 0 invariant sum_so_far: forall d Str :: amt(fees, d) == sumIt(iterator_snap, iterator_pfx, iterator_pos, d)
//@ ensures [C13] sum_of_own_records: forall d Str :: amt(fees, d) == pfxSum(raw, PEarned(provider), d)
//@ ensures found == true

//@ func (Keeper).DeleteEarnedFees
//@ vars (keeper.Keeper).DeleteEarnedFees: k=github.com/irismod/service/keeper.Keeper#0 ctx=github.com/cosmos/cosmos-sdk/types.Context#0 provider=github.com/cosmos/cosmos-sdk/types.AccAddress#0 store=github.com/cosmos/cosmos-sdk/types.KVStore#0 iterator=github.com/cosmos/cosmos-sdk/types.Iterator#0
//@ props C13
//@ modifies raw
//@ loop 0 invariant pos_in_range: 0 <= iterator_pos && iterator_pos <= itCount(iterator_snap, iterator_pfx)
//@ loop 0 invariant cleared_so_far: forall k Key :: {raw[k]} raw[k] == ((inPfx(k, iterator_pfx) && iterator_snap[k] != bnil && itIdx(iterator_snap, iterator_pfx, k) < iterator_pos) ? bnil : iterator_snap[k])
//@ ensures [C13] deletes_exactly_own_records: raw == clearPfx(old(raw), PEarned(provider))

//@ func (Keeper).SetEarnedFees
//@ vars (keeper.Keeper).SetEarnedFees: k=github.com/irismod/service/keeper.Keeper#0 ctx=github.com/cosmos/cosmos-sdk/types.Context#0 provider=github.com/cosmos/cosmos-sdk/types.AccAddress#0 fees=github.com/cosmos/cosmos-sdk/types.Coins#0 store=github.com/cosmos/cosmos-sdk/types.KVStore#0 i=int#0 bz=[]byte#0
//@ props C13
//@ modifies raw
//@ loop 0 invariant seen: 0 <= iter && iter <= len(fees)
//@ loop 0 invariant written_so_far: raw == wrEarned(old(raw), provider, fees, iter)
//@ ensures [C13] one_record_per_coin: raw == wrEarned(old(raw), provider, fees, len(fees))

//@ func (Keeper).SetOwnerEarnedFees
//@ vars (keeper.Keeper).SetOwnerEarnedFees: k=github.com/irismod/service/keeper.Keeper#0 ctx=github.com/cosmos/cosmos-sdk/types.Context#0 owner=github.com/cosmos/cosmos-sdk/types.AccAddress#0 fees=github.com/cosmos/cosmos-sdk/types.Coins#0 store=github.com/cosmos/cosmos-sdk/types.KVStore#0 i=int#0 bz=[]byte#0
//@ props C13
//@ modifies raw
//@ loop 0 invariant seen: 0 <= iter && iter <= len(fees)
//@ loop 0 invariant written_so_far: raw == wrOwnerEarned(old(raw), owner, fees, iter)
//@ ensures [C13] owner_record: raw == wrOwnerEarned(old(raw), owner, fees, len(fees))

//@ func (Keeper).GetOwnerEarnedFees
//@ vars (keeper.Keeper).GetOwnerEarnedFees: k=github.com/irismod/service/keeper.Keeper#0 ctx=github.com/cosmos/cosmos-sdk/types.Context#0 owner=github.com/cosmos/cosmos-sdk/types.AccAddress#0 fees=github.com/cosmos/cosmos-sdk/types.Coins#0 found=bool#0 store=github.com/cosmos/cosmos-sdk/types.KVStore#0 iterator=github.com/cosmos/cosmos-sdk/types.Iterator#0 balance=github.com/cosmos/cosmos-sdk/types.Coin#0
//@ props C13 C17
//@ loop 0 invariant pos_in_range: 0 <= iterator_pos && iterator_pos <= itCount(iterator_snap, iterator_pfx)
//@ loop 0 invariant sum_so_far: forall d Str :: amt(fees, d) == sumIt(iterator_snap, iterator_pfx, iterator_pos, d)
//@ ensures [C13] sum_of_owner_record: forall d Str :: amt(fees, d) == pfxSum(raw, POwnerEarned(owner), d)
//@ ensures found == true

//@ func (Keeper).DeleteOwnerEarnedFees
//@ vars (keeper.Keeper).DeleteOwnerEarnedFees: k=github.com/irismod/service/keeper.Keeper#0 ctx=github.com/cosmos/cosmos-sdk/types.Context#0 owner=github.com/cosmos/cosmos-sdk/types.AccAddress#0 store=github.com/cosmos/cosmos-sdk/types.KVStore#0 iterator=github.com/cosmos/cosmos-sdk/types.Iterator#0
//@ props C13
//@ modifies raw
//@ loop 0 invariant pos_in_range: 0 <= iterator_pos && iterator_pos <= itCount(iterator_snap, iterator_pfx)
//@ loop 0 invariant cleared_so_far: forall k Key :: {raw[k]} raw[k] == ((inPfx(k, iterator_pfx) && iterator_snap[k] != bnil && itIdx(iterator_snap, iterator_pfx, k) < iterator_pos) ? bnil : iterator_snap[k])
//@ ensures [C13] deletes_exactly_owner_record: raw == clearPfx(old(raw), POwnerEarned(owner))

//@ func (Keeper).AddEarnedFee
//@ vars (keeper.Keeper).AddEarnedFee: k=github.com/irismod/service/keeper.Keeper#0 ctx=github.com/cosmos/cosmos-sdk/types.Context#0 provider=github.com/cosmos/cosmos-sdk/types.AccAddress#0 fee=github.com/cosmos/cosmos-sdk/types.Coins#0 taxRate=github.com/cosmos/cosmos-sdk/types.Dec#0 taxCoins=github.com/cosmos/cosmos-sdk/types.Coins#1 coin=github.com/cosmos/cosmos-sdk/types.Coin#0 taxAmount=github.com/cosmos/cosmos-sdk/types.Int#0 err=error#0 earnedFee=github.com/cosmos/cosmos-sdk/types.Coins#2 hasNeg=bool#0 earnedFees=github.com/cosmos/cosmos-sdk/types.Coins#3 owner=github.com/cosmos/cosmos-sdk/types.AccAddress#1 ownerEarnedFees=github.com/cosmos/cosmos-sdk/types.Coins#4
//@ props C13 C02 C01
//@ modifies raw, bal
//@ requires fee_nonneg: forall i Int :: {fee[i]} 0 <= i && i < len(fee) ==> fee[i].Amount >= 0
//@ loop 0 invariant seen: 0 <= iter && iter <= len(fee)
//@ loop 0 invariant tax_so_far: forall d Str :: amt(taxCoins, d) == taxSum(fee, iter, d)
//@ ensures [C02] tax_goes_to_the_collector: err == NoErr ==> (forall a Bytes, d Str :: {bal[a][d]} bal[a][d] ==
//@      old(bal)[a][d] - (a == requestAcc ? taxSum(fee, len(fee), d) : 0) + (a == feeCollectorAcc ? taxSum(fee, len(fee), d) : 0))
//@ witness c1 (Slice Coin) := coinsAdd(earnedFees, earnedFee)
//@ witness c2 (Slice Coin) := coinsAdd(ownerEarnedFees, earnedFee)
//@ ensures [C13,C02] provider_gets_fee_minus_tax: err == NoErr ==> (forall d Str :: {amt(c1, d)} amt(c1, d) == pfxSum(old(raw), PEarned(provider), d) + amt(fee, d) - taxSum(fee, len(fee), d))
//@ ensures [C13] owner_gets_the_same_amount: err == NoErr ==> (forall d Str :: {amt(c2, d)} amt(c2, d) ==
//@      pfxSum(wrEarned(old(raw), provider, c1, len(c1)), POwnerEarned(ownerOf(old(raw), provider)), d) + amt(fee, d) - taxSum(fee, len(fee), d))
//@ ensures witnesses_are_coin_lists: err == NoErr ==> len(c1) >= 0 && len(c2) >= 0
//@ ensures [C13] exactly_these_records_written: err == NoErr ==> raw == wrOwnerEarned(wrEarned(old(raw), provider, c1, len(c1)), ownerOf(old(raw), provider), c2, len(c2))
//@ ensures error_changes_no_record: err != NoErr ==> raw == old(raw)
//@ requires [C01] earned_records_well_formed: wfEarned(raw) && earnNonneg(raw)
//@ ensures [C01,C02] pending_total_untouched: err == NoErr ==> (forall d Str :: {sumPend(raw, d)} sumPend(raw, d) == sumPend(old(raw), d))
//@ ensures [C01,C02] earnings_total_grows_by_fee_minus_tax: err == NoErr ==> (forall d Str :: {sumEarn(raw, d)} sumEarn(raw, d) == sumEarn(old(raw), d) + amt(fee, d) - taxSum(fee, len(fee), d))
//@ ensures [C01,C13] earned_records_stay_well_formed: err == NoErr ==> wfEarned(raw) && earnNonneg(raw)
//@ after earnings_total_grows_by_fee_minus_tax assume provider_gets_fee_minus_tax exactly_these_records_written witnesses_are_coin_lists
//@ after pending_total_untouched assume exactly_these_records_written witnesses_are_coin_lists
//@ after earned_records_stay_well_formed assume provider_gets_fee_minus_tax exactly_these_records_written witnesses_are_coin_lists
//@ ensures [C15] definitions_bindings_and_provider_owners_are_for_life: forLife(old(raw), raw)

//@ func (Keeper).WithdrawEarnedFees
//@ vars (keeper.Keeper).WithdrawEarnedFees: k=github.com/irismod/service/keeper.Keeper#0 ctx=github.com/cosmos/cosmos-sdk/types.Context#0 owner=github.com/cosmos/cosmos-sdk/types.AccAddress#0 provider=github.com/cosmos/cosmos-sdk/types.AccAddress#1 providerOwner=github.com/cosmos/cosmos-sdk/types.AccAddress#2 ownerEarnedFees=github.com/cosmos/cosmos-sdk/types.Coins#0 found=bool#0 withdrawFees=github.com/cosmos/cosmos-sdk/types.Coins#1 earnedFees=github.com/cosmos/cosmos-sdk/types.Coins#2 found=bool#1 iterator=github.com/cosmos/cosmos-sdk/types.Iterator#0 provider=github.com/cosmos/cosmos-sdk/types.AccAddress#3 withdrawAddr=github.com/cosmos/cosmos-sdk/types.AccAddress#4
//@ props C13 C05 C01 C18
//@ modifies raw, bal
//@ requires signer_address: len(owner) == 20
//@ requires [C13] owner_total_covers_provider: forall d Str :: pfxSum(raw, POwnerEarned(owner), d) >= pfxSum(raw, PEarned(provider), d)
//@ loop 0 invariant pos_in_range: 0 <= iterator_pos && iterator_pos <= itCount(iterator_snap, iterator_pfx)
//@ loop 0 invariant snapshot: iterator_snap == old(raw) && iterator_pfx == POwnerProv(owner)
//@ loop 0 invariant cleared_so_far: raw == clrProv(old(raw), iterator_snap, iterator_pfx, iterator_pos)
//@ witness paid (Slice Coin) := withdrawFees
//@ witness oe (Slice Coin) := ownerEarnedFees
//@ ensures [C05,C13] only_the_provider_owner: err == NoErr && len(provider) > 0 ==> addrEq(owner, ownerOf(old(raw), provider))
//@ ensures [C13] pays_exactly_the_recorded_earnings: err == NoErr ==> (forall d Str :: amt(paid, d) ==
//@      (len(provider) > 0 ? pfxSum(old(raw), PEarned(provider), d) : pfxSum(old(raw), POwnerEarned(owner), d)))
//@ ensures [C13] to_the_owners_withdrawal_address: err == NoErr ==> bal == bankMove(old(bal), requestAcc, withdrawAddrOf(old(raw), owner), paid)
//@ ensures [C13] provider_mode_resets_exactly_its_records: err == NoErr && len(provider) > 0 ==> (forall d Str :: {amt(oe, d)} amt(oe, d) == pfxSum(old(raw), POwnerEarned(owner), d)) &&
//@      raw == (coinsEqual(paid, oe) ? clearPfx(clearPfx(old(raw), PEarned(provider)), POwnerEarned(owner))
//@                                   : wrOwnerEarned(clearPfx(old(raw), PEarned(provider)), owner, coinsSub(oe, paid), len(coinsSub(oe, paid))))
//@ ensures [C13] owner_mode_resets_all_its_providers: err == NoErr && len(provider) == 0 ==>
//@      raw == clearPfx(clrProv(old(raw), old(raw), POwnerProv(owner), itCount(old(raw), POwnerProv(owner))), POwnerEarned(owner))
//@ requires [C01] escrow_exactly_backed: escInv(raw, bal) && earnNonneg(raw) && wfEarned(raw)
//@ requires [C01] a16_withdrawal_address_is_an_ordinary_account: ordinary(withdrawAddrOf(raw, owner))
//@ ensures [C01,C13] earned_records_stay_well_formed: err == NoErr ==> earnNonneg(raw) && wfEarned(raw)
//@ ensures [C01] pending_total_untouched: err == NoErr ==> (forall d Str :: {sumPend(raw, d)} sumPend(raw, d) == sumPend(old(raw), d))
//@ ensures [C01,C13] provider_withdrawal_pays_the_recorded_amounts: err == NoErr && len(provider) > 0 ==>
//@      (forall d Str :: {amt(paid, d)} amt(paid, d) == earnedAt(old(raw), provider, d))
//@ ensures [C01,C13] provider_withdrawal_extinguishes_exactly_what_it_pays: err == NoErr && len(provider) > 0 ==>
//@      (forall d Str :: {sumEarn(raw, d)} sumEarn(raw, d) == sumEarn(old(raw), d) - earnedAt(old(raw), provider, d))
//@ ensures [C01] escrow_exactly_backed_after_a_provider_withdrawal: err == NoErr && len(provider) > 0 ==> escInv(raw, bal)
//@ after provider_withdrawal_pays_the_recorded_amounts assume pays_exactly_the_recorded_earnings
//@ after provider_withdrawal_extinguishes_exactly_what_it_pays assume provider_mode_resets_exactly_its_records
//@ after pending_total_untouched assume provider_mode_resets_exactly_its_records owner_mode_resets_all_its_providers
//@ after earned_records_stay_well_formed assume provider_mode_resets_exactly_its_records owner_mode_resets_all_its_providers
//@ after escrow_exactly_backed_after_a_provider_withdrawal assume provider_withdrawal_pays_the_recorded_amounts provider_withdrawal_extinguishes_exactly_what_it_pays pending_total_untouched to_the_owners_withdrawal_address
//@ requires [C13] owner_total_is_the_sum_of_its_providers_earnings: len(provider) == 0 ==> ownerTotalOK(raw, owner)
//@ ensures [C01,C13] owner_withdrawal_extinguishes_exactly_what_it_pays: err == NoErr && len(provider) == 0 ==>
//@      (forall d Str :: {sumEarn(raw, d)} sumEarn(raw, d) == sumEarn(old(raw), d) - ownSum(old(raw), owner, itCount(old(raw), POwnerProv(owner)), d)) &&
//@      (forall d Str :: {amt(paid, d)} amt(paid, d) == ownSum(old(raw), owner, itCount(old(raw), POwnerProv(owner)), d))
//@ ensures [C01] escrow_exactly_backed_after_an_owner_withdrawal: err == NoErr && len(provider) == 0 ==> escInv(raw, bal)
//@ after owner_withdrawal_extinguishes_exactly_what_it_pays assume pays_exactly_the_recorded_earnings owner_mode_resets_all_its_providers
//@ after escrow_exactly_backed_after_an_owner_withdrawal assume owner_withdrawal_extinguishes_exactly_what_it_pays pending_total_untouched to_the_owners_withdrawal_address
//@ ensures [C15] definitions_bindings_and_provider_owners_are_for_life: forLife(old(raw), raw)

// ---------------------------------------------------------------- requests, responses, batches (C02, C08, C12, C16, C17)
//@ func (Keeper).GetRequest
//@ vars (keeper.Keeper).GetRequest: k=github.com/irismod/service/keeper.Keeper#0 ctx=github.com/cosmos/cosmos-sdk/types.Context#0 requestID=github.com/tendermint/tendermint/libs/bytes.HexBytes#0 request=github.com/irismod/service/types.Request#0 found=bool#0 compactRequest=github.com/irismod/service/types.CompactRequest#0 requestContext=github.com/irismod/service/types.RequestContext#0
//@ props C17 C02 C08
//@ ensures found_iff_record_and_context: found == requestFound(raw, requestID)
//@ ensures [C17] reconstructed_from_its_context: found ==> request == requestOf(raw, requestID)
//@ ensures !found ==> request == zero_Request

//@ func (Keeper).GetResponseOutputs
//@ vars (keeper.Keeper).GetResponseOutputs: k=github.com/irismod/service/keeper.Keeper#0 ctx=github.com/cosmos/cosmos-sdk/types.Context#0 requestContextID=github.com/tendermint/tendermint/libs/bytes.HexBytes#0 batchCounter=uint64#0 iterator=github.com/cosmos/cosmos-sdk/types.Iterator#0 outputs=[]string#0 response=github.com/irismod/service/types.Response#0
//@ props C12
//@ loop 0 invariant pos_in_range: 0 <= iterator_pos && iterator_pos <= itCount(iterator_snap, iterator_pfx)
//@ loop 0 invariant outputs_so_far: outputs == outsIt(iterator_snap, iterator_pfx, iterator_pos)
//@ ensures [C12] exactly_the_nonempty_outputs_of_the_batch: result == outputsOf(raw, requestContextID, batchCounter)

//@ func (Keeper).Callback
//@ vars (keeper.Keeper).Callback: k=github.com/irismod/service/keeper.Keeper#0 ctx=github.com/cosmos/cosmos-sdk/types.Context#0 requestContextID=github.com/tendermint/tendermint/libs/bytes.HexBytes#0 requestContext=github.com/irismod/service/types.RequestContext#0 respCallback=func#0 outputs=[]string#0
//@ props C12
//@ modifies cblog
//@ ensures [C12] one_callback_with_batch_outputs: (let c := ctxOrZero(raw, requestContextID) in let outs := outputsOf(raw, requestContextID, c.BatchCounter) in
//@      cblog == cbResp(old(cblog), requestContextID, outs, len(outs) < c.BatchResponseThreshold))

//@ func (Keeper).CompleteBatch
//@ vars (keeper.Keeper).CompleteBatch: k=github.com/irismod/service/keeper.Keeper#0 ctx=github.com/cosmos/cosmos-sdk/types.Context#0 requestContext=github.com/irismod/service/types.RequestContext#0 requestContextID=github.com/tendermint/tendermint/libs/bytes.HexBytes#0 batchState=github.com/irismod/service/types.BatchState#0 stateJSON=[]byte#0
//@ props C12 C09
//@ modifies cblog
//@ ensures [C12] marks_batch_completed_only: result == requestContext[BatchState := BATCHCOMPLETED]
//@ ensures [C12] callback_once_for_module_contexts: (let c := ctxOrZero(raw, requestContextID) in let outs := outputsOf(raw, requestContextID, c.BatchCounter) in
//@      cblog == (len(requestContext.ModuleName) != 0 ? cbResp(old(cblog), requestContextID, outs, len(outs) < c.BatchResponseThreshold) : old(cblog)))

//@ func (Keeper).AddResponse
//@ vars (keeper.Keeper).AddResponse: k=github.com/irismod/service/keeper.Keeper#0 ctx=github.com/cosmos/cosmos-sdk/types.Context#0 requestID=github.com/tendermint/tendermint/libs/bytes.HexBytes#0 provider=github.com/cosmos/cosmos-sdk/types.AccAddress#0 result=string#0 output=string#1 request=github.com/irismod/service/types.Request#0 response=github.com/irismod/service/types.Response#0 err=error#0 found=bool#0 err=error#1 err=error#2 requestContextID=github.com/tendermint/tendermint/libs/bytes.HexBytes#1 requestContext=github.com/irismod/service/types.RequestContext#0
//@ props C02 C08 C05 C12 C04 C07 C20
//@ requires [C16] both_pending_indexes_list_the_same_requests: idxInv(raw)
//@ preserves [C16] no_orphan_request_or_response_record: recInv(raw)
//@ preserves [C10] never_more_batches_than_the_largest_total: cadInv(raw, ghostMaxTot)
//@ preserves [C11] no_event_in_the_past: futInv(raw, ctxHeight(ctx))
//@ preserves [C11] queues_stay_well_formed: schedInv(raw)
//@ preserves [C12,C16,C08,C04] open_batches_count_their_pending_requests: cntInv(raw)
//@ preserves [C16,C08,C02,C01,C04] pending_requests_stay_well_formed: actInv(raw)
//@ after pending_requests_stay_well_formed_kept assume open_batches_count_their_pending_requests_kept
//@ modifies raw, bal, supply, cblog
//@ preserves wf: WF(raw)
//@ preserves [C03] deposits_in_custody: depInv(raw, bal)
//@ requires [C04] binding_of_request_exists: requestFound(raw, requestID) && isActive(raw, requestID) ==> bindFound(raw, reqSvc(raw, requestID), reqProv(raw, requestID))
//@ requires fee_nonneg: requestFound(raw, requestID) && isActive(raw, requestID) ==> (forall i Int :: {reqFee(raw, requestID)[i]} 0 <= i && i < len(reqFee(raw, requestID)) ==> reqFee(raw, requestID)[i].Amount >= 0)
//@ requires stored_in_range: requestFound(raw, requestID) && isActive(raw, requestID) ==> rng_RequestContext(ctxOf(raw, reqCtxId(raw, requestID)))
//@ requires consumer_ordinary: requestFound(raw, requestID) && isActive(raw, requestID) ==> ordinary(reqConsumer(raw, requestID))
//@ ensures [C08,C05] accepted_only_from_its_provider_while_pending: err == NoErr ==> requestFound(old(raw), requestID) && addrEq(provider, reqProv(old(raw), requestID)) && isActive(old(raw), requestID)
//@ ensures [C08] rejected_response_changes_nothing: (!requestFound(old(raw), requestID) || !addrEq(provider, reqProv(old(raw), requestID)) || !isActive(old(raw), requestID))
//@      ==> err != NoErr && raw == old(raw) && bal == old(bal) && supply == old(supply) && cblog == old(cblog)
//@ ensures [C02,C08] no_longer_pending_in_either_index: err == NoErr ==> raw[KActID(requestID)] == bnil &&
//@      raw[KActB(reqSvc(old(raw), requestID), provider, reqOf(old(raw), requestID).ExpirationHeight, requestID)] == bnil
//@ ensures [C02,C04] malformed_output_slashes_and_refunds_the_consumer: err == NoErr && malformed(output) ==>
//@      bal == bankMove(bankBurn(old(bal), depositAcc, slashBurn(old(raw), requestID)), requestAcc, reqConsumer(old(raw), requestID), reqFee(old(raw), requestID)) &&
//@      supply == supplyBurn(old(supply), slashBurn(old(raw), requestID))
//@ ensures [C02,C04] good_response_pays_tax_and_never_slashes: err == NoErr && !malformed(output) ==> supply == old(supply) &&
//@      (forall a Bytes, d Str :: {bal[a][d]} bal[a][d] == old(bal)[a][d]
//@          - (a == requestAcc ? taxSum(reqFee(old(raw), requestID), len(reqFee(old(raw), requestID)), d) : 0)
//@          + (a == feeCollectorAcc ? taxSum(reqFee(old(raw), requestID), len(reqFee(old(raw), requestID)), d) : 0))
//@ ensures [C08] response_recorded: err == NoErr ==> raw[KResp(requestID)] == enc_Response(mkResponse(provider, reqConsumer(old(raw), requestID), result, output, reqCtxId(old(raw), requestID), reqOf(old(raw), requestID).RequestContextBatchCounter))
//@ ensures [C07] volume_counts_this_response: err == NoErr ==> volOf(raw, reqConsumer(old(raw), requestID), reqSvc(old(raw), requestID), provider) == wrap_u64(volOf(old(raw), reqConsumer(old(raw), requestID), reqSvc(old(raw), requestID), provider) + 1)
//@ ensures [C12] response_counted_and_batch_completed_when_all_answered: err == NoErr ==> (let id := reqCtxId(old(raw), requestID) in let c := ctxOf(old(raw), id) in let n := ctxOf(raw, id) in
//@      ctxFound(raw, id) && n.BatchResponseCount == wrap_u32(c.BatchResponseCount + 1) && sameIdentity(c, n) && n.State == c.State && n.BatchCounter == c.BatchCounter && n.BatchRequestCount == c.BatchRequestCount &&
//@      n.BatchState == (wrap_u32(c.BatchResponseCount + 1) == c.BatchRequestCount ? BATCHCOMPLETED : c.BatchState))
//@ ensures [C16,C15] touches_only_its_own_records: err == NoErr ==> (forall k Key :: {raw[k]}
//@      (k != KResp(requestID) && k != KActID(requestID) && k != KActB(reqSvc(old(raw), requestID), provider, reqOf(old(raw), requestID).ExpirationHeight, requestID) &&
//@       k != KVol(reqConsumer(old(raw), requestID), reqSvc(old(raw), requestID), provider) && k != KCtx(reqCtxId(old(raw), requestID)) &&
//@       k != KBind(reqSvc(old(raw), requestID), reqProv(old(raw), requestID)) && !(is_KEarned(k) && kea_prov(k) == provider) && k != KOwnerEarned(ownerOf(old(raw), provider)))
//@      ==> raw[k] == old(raw)[k])
//@ preserves [C01,C13] earned_records_well_formed: wfEarned(raw) && earnNonneg(raw)
//@ requires [C01] escrow_exactly_backed: escInv(raw, bal)
//@ ensures [C01,C02] pending_total_drops_by_the_fee: err == NoErr ==> (forall d Str :: {sumPend(raw, d)} sumPend(raw, d) == sumPend(old(raw), d) - amt(reqFee(old(raw), requestID), d))
//@ ensures [C01,C02] earnings_total_grows_by_fee_minus_tax_unless_malformed: err == NoErr ==> (forall d Str :: {sumEarn(raw, d)} sumEarn(raw, d) == sumEarn(old(raw), d) +
//@      (malformed(output) ? 0 : amt(reqFee(old(raw), requestID), d) - taxSum(reqFee(old(raw), requestID), len(reqFee(old(raw), requestID)), d)))
//@ ensures [C01,C02] escrow_exactly_backed_kept: err == NoErr ==> escInv(raw, bal)
//@ after escrow_exactly_backed_kept assume pending_total_drops_by_the_fee earnings_total_grows_by_fee_minus_tax_unless_malformed malformed_output_slashes_and_refunds_the_consumer good_response_pays_tax_and_never_slashes
//@ ensures [C16] both_pending_indexes_list_the_same_requests_kept: err == NoErr ==> idxInv(raw)
//@ after both_pending_indexes_list_the_same_requests_kept assume accepted_only_from_its_provider_while_pending no_longer_pending_in_either_index touches_only_its_own_records response_counted_and_batch_completed_when_all_answered
//@ ensures [C15] definitions_bindings_and_provider_owners_are_for_life: forLife(old(raw), raw)

// ---------------------------------------------------------------- issuing a batch (C06, C01, C08, C12)
//@ func (Keeper).FilterServiceProviders
//@ vars (keeper.Keeper).FilterServiceProviders: k=github.com/irismod/service/keeper.Keeper#0 ctx=github.com/cosmos/cosmos-sdk/types.Context#0 serviceName=string#0 providers=[]github.com/cosmos/cosmos-sdk/types.AccAddress#0 timeout=int64#0 serviceFeeCap=github.com/cosmos/cosmos-sdk/types.Coins#0 consumer=github.com/cosmos/cosmos-sdk/types.AccAddress#0 newProviders=[]github.com/cosmos/cosmos-sdk/types.AccAddress#1 totalPrices=github.com/cosmos/cosmos-sdk/types.Coins#1 provider=github.com/cosmos/cosmos-sdk/types.AccAddress#1 binding=github.com/irismod/service/types.ServiceBinding#0 found=bool#0 price=github.com/cosmos/cosmos-sdk/types.Coins#2 rawDenom=string#1 err=error#0
//@ props C06 C01
//@ requires wf: WF(raw)
//@ loop 0 invariant seen: 0 <= iter && iter <= len(providers)
//@ loop 0 invariant kept_have_bindings: len(newProviders) <= iter && (forall i Int :: {newProviders[i]} 0 <= i && i < len(newProviders) ==> bindFound(raw, serviceName, newProviders[i]))
//@ loop 0 invariant filtered_so_far: allBase(raw, serviceName, providers) ==> newProviders == filtIt(raw, ctxTime(ctx), serviceName, timeout, serviceFeeCap, consumer, providers, iter)
//@ loop 0 invariant total_so_far: allBase(raw, serviceName, providers) ==> totalPrices == totIt(raw, ctxTime(ctx), serviceName, timeout, serviceFeeCap, consumer, providers, iter)
//@ ensures [C06] exactly_the_eligible_providers_in_order: err == NoErr && allBase(raw, serviceName, providers) ==>
//@      result0 == filtIt(raw, ctxTime(ctx), serviceName, timeout, serviceFeeCap, consumer, providers, len(providers))
//@ ensures [C06,C01] total_is_the_sum_of_their_prices: err == NoErr && allBase(raw, serviceName, providers) ==>
//@      result1 == totIt(raw, ctxTime(ctx), serviceName, timeout, serviceFeeCap, consumer, providers, len(providers))
//@ ensures [C11] no_error_when_prices_are_in_base_denom: allBase(raw, serviceName, providers) ==> err == NoErr
//@ ensures [C06] only_providers_with_bindings: err == NoErr ==> len(result0) <= len(providers) && (forall i Int :: {result0[i]} 0 <= i && i < len(result0) ==> bindFound(raw, serviceName, result0[i]))
//@ ensures [C06,C11] an_error_returns_no_provider_and_no_total: err != NoErr ==> len(result0) == 0 && len(result1) == 0

//@ func (Keeper).buildRequest
//@ vars (keeper.Keeper).buildRequest: k=github.com/irismod/service/keeper.Keeper#0 ctx=github.com/cosmos/cosmos-sdk/types.Context#0 requestContextID=github.com/tendermint/tendermint/libs/bytes.HexBytes#0 batchCounter=uint64#0 serviceName=string#0 provider=github.com/cosmos/cosmos-sdk/types.AccAddress#0 superMode=bool#0 consumer=github.com/cosmos/cosmos-sdk/types.AccAddress#1 timeout=int64#0 serviceFee=github.com/cosmos/cosmos-sdk/types.Coins#0 binding=github.com/irismod/service/types.ServiceBinding#0
//@ props C08 C07 C01
//@ requires wf: WF(raw)
//@ ensures [C08] expiry_is_issue_height_plus_timeout: result.RequestHeight == ctxHeight(ctx) && result.ExpirationHeight == wrap_i64(ctxHeight(ctx) + timeout)
//@ ensures [C07] super_mode_is_free: superMode ==> result.ServiceFee == noCoins
//@ ensures [C07,C01] fee_is_the_published_price: !superMode && bindFound(raw, serviceName, provider) ==> result.ServiceFee == priceCoins(raw, ctxTime(ctx), consumer, serviceName, provider)
//@ ensures identity_fields: result.RequestContextId == requestContextID && result.RequestContextBatchCounter == batchCounter && result.Provider == provider

//@ func (Keeper).InitiateRequests
//@ vars (keeper.Keeper).InitiateRequests: k=github.com/irismod/service/keeper.Keeper#0 ctx=github.com/cosmos/cosmos-sdk/types.Context#0 requestContextID=github.com/tendermint/tendermint/libs/bytes.HexBytes#0 providers=[]github.com/cosmos/cosmos-sdk/types.AccAddress#0 providerRequests=map[string][]string#0 requestContext=github.com/irismod/service/types.RequestContext#0 requests=[]github.com/irismod/service/types.CompactRequest#0 requestIDs=[]github.com/tendermint/tendermint/libs/bytes.HexBytes#0 providerIndex=int#0 provider=github.com/cosmos/cosmos-sdk/types.AccAddress#0 request=github.com/irismod/service/types.CompactRequest#0 requestID=github.com/tendermint/tendermint/libs/bytes.HexBytes#1 requestsJSON=[]byte#0
//@ props C01 C08 C12 C18 C09 C16
//@ modifies raw
//@ requires wf: WF(raw)
//@ requires context_exists: ctxFound(raw, requestContextID) && rng_RequestContext(ctxOf(raw, requestContextID))
//@ requires bindings_exist: forall i Int :: {providers[i]} 0 <= i && i < len(providers) ==> bindFound(raw, ctxOf(raw, requestContextID).ServiceName, providers[i])
//@ requires [C18] index_fits: len(providers) <= 32767
//@ loop 0 invariant seen: 0 <= iter && iter <= len(providers)
//@ loop 0 invariant [C01,C08,C18] issued_so_far: raw == issueIt(old(raw), ctxTime(ctx), ctxHeight(ctx), requestContextID, ctxOf(old(raw), requestContextID),
//@      wrap_u64(ctxOf(old(raw), requestContextID).BatchCounter + 1), providers, iter)
//@ loop 0 invariant [C18] event_order_is_id_order: len(requests) == iter && len(requestIDs) == iter
//@ ensures [C01,C08,C18] one_request_per_provider_with_its_price_and_markers: (let c := ctxOf(old(raw), requestContextID) in
//@      raw == issueIt(old(raw), ctxTime(ctx), ctxHeight(ctx), requestContextID, c, wrap_u64(c.BatchCounter + 1), providers, len(providers))
//@             [KCtx(requestContextID) := enc_RequestContext(c[BatchCounter := wrap_u64(c.BatchCounter + 1)][BatchState := BATCHRUNNING][BatchResponseCount := 0]
//@                  [BatchRequestCount := wrap_u32(len(providers))][BatchResponseThreshold := c.ResponseThreshold])])
//@ ensures [C18] ids_in_issue_order: len(result) == len(providers)

//@ func (Keeper).SkipCurrentRequestBatch
//@ vars (keeper.Keeper).SkipCurrentRequestBatch: k=github.com/irismod/service/keeper.Keeper#0 ctx=github.com/cosmos/cosmos-sdk/types.Context#0 requestContextID=github.com/tendermint/tendermint/libs/bytes.HexBytes#0 requestContext=github.com/irismod/service/types.RequestContext#0
//@ props C06 C09 C11 C12
//@ modifies raw
//@ ensures [C06,C09,C11] counter_advances_no_requests_expiry_scheduled: raw == old(raw)
//@      [KCtx(requestContextID) := enc_RequestContext(requestContext[BatchCounter := wrap_u64(requestContext.BatchCounter + 1)][BatchState := BATCHRUNNING][BatchRequestCount := 0][BatchResponseCount := 0][BatchResponseThreshold := requestContext.ResponseThreshold])]
//@      [KExpQ(wrap_i64(ctxHeight(ctx) + requestContext.Timeout), requestContextID) := idVal(requestContextID)]
//@      [KExpH(requestContextID) := hVal(wrap_i64(ctxHeight(ctx) + requestContext.Timeout))]

//@ func (Keeper).OnRequestContextPaused
//@ vars (keeper.Keeper).OnRequestContextPaused: k=github.com/irismod/service/keeper.Keeper#0 ctx=github.com/cosmos/cosmos-sdk/types.Context#0 requestContext=github.com/irismod/service/types.RequestContext#0 requestContextID=github.com/tendermint/tendermint/libs/bytes.HexBytes#0 cause=string#0 stateCallback=func#0
//@ props C09 C12 C06
//@ modifies raw, cblog
//@ ensures [C09] context_paused_batch_completed: raw == old(raw)[KCtx(requestContextID) := enc_RequestContext(requestContext[BatchState := BATCHCOMPLETED][State := PAUSED])]
//@ ensures [C12] state_callback_for_module_contexts: cblog == (len(requestContext.ModuleName) > 0 ? cbState(old(cblog), requestContextID, cause) : old(cblog))

// ---------------------------------------------------------------- batch clean-up (C16)
//@ func (Keeper).CleanBatch
//@ vars (keeper.Keeper).CleanBatch: k=github.com/irismod/service/keeper.Keeper#0 ctx=github.com/cosmos/cosmos-sdk/types.Context#0 requestContext=github.com/irismod/service/types.RequestContext#0 requestContextID=github.com/tendermint/tendermint/libs/bytes.HexBytes#0 iterator=github.com/cosmos/cosmos-sdk/types.Iterator#0 requestID=[]byte#0
//@ props C16 C18
//@ modifies raw
//@ loop 0 invariant pos_in_range: 0 <= iterator_pos && iterator_pos <= itCount(iterator_snap, iterator_pfx)
//@ loop 0 invariant snapshot: iterator_snap == old(raw) && iterator_pfx == PReqByCtx(requestContextID, requestContext.BatchCounter)
//@ loop 0 invariant cleaned_so_far: forall k Key :: {raw[k]} raw[k] ==
//@      (((is_KReq(k) && inPfx(k, iterator_pfx) && iterator_snap[k] != bnil && itIdx(iterator_snap, iterator_pfx, k) < iterator_pos) ||
//@        (is_KResp(k) && inPfx(KReq(kresp_rid(k)), iterator_pfx) && iterator_snap[KReq(kresp_rid(k))] != bnil && itIdx(iterator_snap, iterator_pfx, KReq(kresp_rid(k))) < iterator_pos)) ? bnil : iterator_snap[k])
//@ ensures [C16] removes_exactly_the_batch_records: forall k Key :: {raw[k]} raw[k] == (cleanedKey(old(raw), requestContextID, requestContext.BatchCounter, k) ? bnil : old(raw)[k])

//@ func (Keeper).CompleteServiceContext
//@ vars (keeper.Keeper).CompleteServiceContext: k=github.com/irismod/service/keeper.Keeper#0 ctx=github.com/cosmos/cosmos-sdk/types.Context#0 context=github.com/irismod/service/types.RequestContext#0 requestContextID=github.com/tendermint/tendermint/libs/bytes.HexBytes#0
//@ props C16 C09
//@ modifies raw
//@ ensures [C16] context_removed: raw == old(raw)[KCtx(requestContextID) := bnil]

//@ func (Keeper).CreateRequestContext
//@ vars (keeper.Keeper).CreateRequestContext: k=github.com/irismod/service/keeper.Keeper#0 ctx=github.com/cosmos/cosmos-sdk/types.Context#0 serviceName=string#0 providers=[]github.com/cosmos/cosmos-sdk/types.AccAddress#0 consumer=github.com/cosmos/cosmos-sdk/types.AccAddress#0 input=string#1 serviceFeeCap=github.com/cosmos/cosmos-sdk/types.Coins#0 timeout=int64#0 superMode=bool#0 repeated=bool#1 repeatedFrequency=uint64#0 repeatedTotal=int64#1 state=github.com/irismod/service/types.RequestContextState#0 responseThreshold=uint32#0 moduleName=string#2 err=error#0 err=error#1 err=error#2 found=bool#2 err=error#3 err=error#4 maxRequestTimeout=int64#2 batchCounter=uint64#1 batchRequestCount=uint32#1 batchResponseCount=uint32#2 batchResponseThreshold=uint32#3 batchState=github.com/irismod/service/types.RequestContextBatchState#0 requestContext=github.com/irismod/service/types.RequestContext#0 txHash=[]byte#0 msgIndex=int64#3 requestContextID=github.com/tendermint/tendermint/libs/bytes.HexBytes#0
//@ props C10 C09 C18 C15 C11
//@ preserves [C16] both_pending_indexes_list_the_same_requests: idxInv(raw)
//@ preserves [C16] no_orphan_request_or_response_record: recInv(raw)
//@ requires [C10] never_more_batches_than_the_largest_total: cadInv(raw, ghostMaxTot)
//@ ensures [C10] never_more_batches_than_the_largest_total_kept: err == NoErr ==> cadInv(raw, maxNext(ghostMaxTot, raw))
//@ preserves [C11] no_event_in_the_past: futInv(raw, ctxHeight(ctx))
//@ preserves [C12,C16,C08,C04] open_batches_count_their_pending_requests: cntInv(raw)
//@ preserves [C11] queues_stay_well_formed: schedInv(raw)
//@ preserves [C16,C08,C02,C01,C04] pending_requests_stay_well_formed: actInv(raw)
//@ modifies raw
//@ requires in_range: 0 <= repeatedFrequency && repeatedFrequency <= 18446744073709551615 && 0 <= responseThreshold && responseThreshold <= 4294967295 && 0 <= state && state <= 2
//@ requires a4_fresh_id: !ctxFound(raw, mkCtxID(ctxTxHash(ctx), ctxMsgIndex(ctx)))
//@ requires a2_validated: len(moduleName) == 0 ==> timeout > 0 && (repeated ==> (repeatedFrequency == 0 || repeatedFrequency >= timeout) && (repeatedTotal == -1 || repeatedTotal >= 1))
//@ requires a12_position_index_fits: len(providers) <= 32767
//@ requires a3_consumer_ordinary: ordinary(consumer)
//@ ensures [C18] id_from_tx_hash_and_message_index: err == NoErr ==> result0 == mkCtxID(ctxTxHash(ctx), ctxMsgIndex(ctx))
//@ ensures [C15] only_for_a_defined_service: err == NoErr ==> defFound(old(raw), serviceName)
//@ ensures [C10] timeout_within_the_bound: err == NoErr ==> timeout <= params.MaxRequestTimeout
//@ ensures [C09,C10] stored_as_requested: err == NoErr ==> raw[KCtx(result0)] == enc_RequestContext(mkRequestContext(serviceName, providers, consumer, input, serviceFeeCap, moduleName, timeout, superMode, repeated,
//@      (repeated ? (repeatedFrequency == 0 ? wrap_u64(timeout) : repeatedFrequency) : 0), (repeated ? repeatedTotal : 0), 0, 0, 0, responseThreshold, responseThreshold, BATCHCOMPLETED, state))
//@ ensures [C10,C11] first_batch_queued_for_the_end_of_this_block: err == NoErr ==> raw == (let r1 := old(raw)[KCtx(result0) := raw[KCtx(result0)]] in
//@      (state == RUNNING ? r1[KNewQ(ctxHeight(ctx), result0) := idVal(result0)][KNewH(result0) := hVal(ctxHeight(ctx))] : r1))
//@ ensures error_changes_nothing: err != NoErr ==> raw == old(raw)

//@ func (Keeper).AddServiceDefinition
//@ vars (keeper.Keeper).AddServiceDefinition: k=github.com/irismod/service/keeper.Keeper#0 ctx=github.com/cosmos/cosmos-sdk/types.Context#0 name=string#0 description=string#1 tags=[]string#0 author=github.com/cosmos/cosmos-sdk/types.AccAddress#0 authorDescription=string#2 schemas=string#3 found=bool#0 svcDef=github.com/irismod/service/types.ServiceDefinition#0
//@ props C15
//@ modifies raw
//@ ensures [C15] second_definition_rejected: err == NoErr ==> !defFound(old(raw), name)
//@ ensures [C15] stored_under_its_name_nothing_else_changes: err == NoErr ==> raw == old(raw)[KDef(name) := enc_ServiceDefinition(mkServiceDefinition(name, description, tags, author, authorDescription, schemas))]
//@ ensures error_changes_nothing: err != NoErr ==> raw == old(raw)

// ---------------------------------------------------------------- gRPC queries (C17): each returns exactly the stored view
//@ func (Keeper).GetOwnerServiceBindings
//@ vars (keeper.Keeper).GetOwnerServiceBindings: k=github.com/irismod/service/keeper.Keeper#0 ctx=github.com/cosmos/cosmos-sdk/types.Context#0 owner=github.com/cosmos/cosmos-sdk/types.AccAddress#0 serviceName=string#0 store=github.com/cosmos/cosmos-sdk/types.KVStore#0 bindings=[]*github.com/irismod/service/types.ServiceBinding#0 iterator=github.com/cosmos/cosmos-sdk/types.Iterator#0 bindingKey=[]byte#0 sepIndex=int#0 serviceName=string#1 provider=github.com/cosmos/cosmos-sdk/types.AccAddress#1 binding=github.com/irismod/service/types.ServiceBinding#0 found=bool#0
//@ props C17 C15 C18
//@ requires owner_address: len(owner) == 20
//@ loop 0 invariant pos_in_range: 0 <= iterator_pos && iterator_pos <= itCount(iterator_snap, iterator_pfx)
//@ loop 0 invariant snapshot: iterator_snap == raw && iterator_pfx == POwnerBind(owner, serviceName)
//@ loop 0 invariant listed_so_far: bindings == ownerBindsIt(iterator_snap, iterator_pfx, iterator_pos)
//@ loop 0 invariant one_binding_per_index_entry: WF(raw) ==> len(bindings) == iterator_pos && (forall j Int :: {bindings[j]} 0 <= j && j < iterator_pos ==>
//@      bindings[j] == bindOf(raw, serviceName, kob_prov(itKey(raw, POwnerBind(owner, serviceName), j))) && bindFound(raw, serviceName, kob_prov(itKey(raw, POwnerBind(owner, serviceName), j))))
//@ ensures [C17,C15] exactly_the_owners_bindings_of_the_service: result == ownerBindsIt(raw, POwnerBind(owner, serviceName), itCount(raw, POwnerBind(owner, serviceName)))
//@ ensures [C15,C17] every_listed_binding_is_a_stored_binding_of_this_owner_and_service: WF(raw) ==> (forall j Int :: {result[j]} 0 <= j && j < len(result) ==>
//@      result[j].Owner == owner && result[j].ServiceName == serviceName && bindFound(raw, serviceName, result[j].Provider) && result[j] == bindOf(raw, serviceName, result[j].Provider))
//@ ensures [C15,C17] every_stored_binding_of_this_owner_and_service_is_listed_once: WF(raw) ==> len(result) == itCount(raw, POwnerBind(owner, serviceName)) &&
//@      (forall p Bytes :: {raw[KBind(serviceName, p)]} bindFound(raw, serviceName, p) && bindOf(raw, serviceName, p).Owner == owner ==>
//@        (let j := itIdx(raw, POwnerBind(owner, serviceName), KOwnerBind(owner, serviceName, p)) in 0 <= j && j < len(result) && result[j] == bindOf(raw, serviceName, p)))

//@ func (Keeper).Definition
//@ vars (keeper.Keeper).Definition: k=github.com/irismod/service/keeper.Keeper#0 c=context.Context#0 req=*github.com/irismod/service/types.QueryDefinitionRequest#0 ctx=github.com/cosmos/cosmos-sdk/types.Context#0 definition=github.com/irismod/service/types.ServiceDefinition#0 found=bool#0
//@ props C17
//@ ensures [C17] the_stored_definition: err == NoErr ==> defFound(raw, req.ServiceName) && result0.ServiceDefinition == dec_ServiceDefinition(raw[KDef(req.ServiceName)])
//@ ensures [C17] error_iff_absent: (err == NoErr) <==> defFound(raw, req.ServiceName)

//@ func (Keeper).Binding
//@ vars (keeper.Keeper).Binding: k=github.com/irismod/service/keeper.Keeper#0 c=context.Context#0 req=*github.com/irismod/service/types.QueryBindingRequest#0 ctx=github.com/cosmos/cosmos-sdk/types.Context#0 binding=github.com/irismod/service/types.ServiceBinding#0 found=bool#0
//@ props C17
//@ ensures [C17] the_stored_binding: err == NoErr ==> bindFound(raw, req.ServiceName, req.Provider) && result0.ServiceBinding == bindOf(raw, req.ServiceName, req.Provider)
//@ ensures [C17] error_iff_absent: (err == NoErr) <==> bindFound(raw, req.ServiceName, req.Provider)

//@ func (Keeper).Bindings
//@ vars (keeper.Keeper).Bindings: k=github.com/irismod/service/keeper.Keeper#0 c=context.Context#0 req=*github.com/irismod/service/types.QueryBindingsRequest#0 ctx=github.com/cosmos/cosmos-sdk/types.Context#0 bindings=[]*github.com/irismod/service/types.ServiceBinding#0 iterator=github.com/cosmos/cosmos-sdk/types.Iterator#0 binding=github.com/irismod/service/types.ServiceBinding#0
//@ props C17 C15
//@ requires owner_address: len(req.Owner) == 0 || len(req.Owner) == 20
//@ loop 0 invariant pos_in_range: 0 <= iterator_pos && iterator_pos <= itCount(iterator_snap, iterator_pfx)
//@ loop 0 invariant snapshot: iterator_snap == raw && iterator_pfx == PBindSvc(req.ServiceName)
//@ loop 0 invariant listed_so_far: bindings == bindsIt(iterator_snap, iterator_pfx, iterator_pos)
//@ ensures [C17,C15] exactly_the_bindings_of_the_service_and_owner: err == NoErr && result0.ServiceBindings == (len(req.Owner) == 0
//@      ? bindsIt(raw, PBindSvc(req.ServiceName), itCount(raw, PBindSvc(req.ServiceName)))
//@      : ownerBindsIt(raw, POwnerBind(req.Owner, req.ServiceName), itCount(raw, POwnerBind(req.Owner, req.ServiceName))))

//@ func (Keeper).WithdrawAddress
//@ vars (keeper.Keeper).WithdrawAddress: k=github.com/irismod/service/keeper.Keeper#0 c=context.Context#0 req=*github.com/irismod/service/types.QueryWithdrawAddressRequest#0 ctx=github.com/cosmos/cosmos-sdk/types.Context#0 withdrawAddr=github.com/cosmos/cosmos-sdk/types.AccAddress#0
//@ props C17 C13
//@ ensures [C17] the_withdrawal_address_or_the_owner: err == NoErr && result0.WithdrawAddress == withdrawAddrOf(raw, req.Owner)

//@ func (Keeper).RequestContext
//@ vars (keeper.Keeper).RequestContext: k=github.com/irismod/service/keeper.Keeper#0 c=context.Context#0 req=*github.com/irismod/service/types.QueryRequestContextRequest#0 ctx=github.com/cosmos/cosmos-sdk/types.Context#0 requestContext=github.com/irismod/service/types.RequestContext#0
//@ props C17
//@ ensures [C17] the_stored_context_or_zero: err == NoErr && result0.RequestContext == ctxOrZero(raw, req.RequestContextId)

//@ func (Keeper).Request
//@ vars (keeper.Keeper).Request: k=github.com/irismod/service/keeper.Keeper#0 c=context.Context#0 req=*github.com/irismod/service/types.QueryRequestRequest#0 ctx=github.com/cosmos/cosmos-sdk/types.Context#0 request=github.com/irismod/service/types.Request#0
//@ props C17
//@ ensures [C17] the_reconstructed_request_or_zero: err == NoErr ==> len(req.RequestId) == 58 && result0.Request == requestOrZero(raw, req.RequestId)
//@ ensures [C17] error_iff_bad_length: (err == NoErr) <==> len(req.RequestId) == 58

//@ func (Keeper).Requests
//@ vars (keeper.Keeper).Requests: k=github.com/irismod/service/keeper.Keeper#0 c=context.Context#0 req=*github.com/irismod/service/types.QueryRequestsRequest#0 ctx=github.com/cosmos/cosmos-sdk/types.Context#0 iterator=github.com/cosmos/cosmos-sdk/types.Iterator#0 requests=[]*github.com/irismod/service/types.Request#0 requestID=github.com/gogo/protobuf/types.BytesValue#0 request=github.com/irismod/service/types.Request#0
//@ props C17 C18
//@ loop 0 invariant pos_in_range: 0 <= iterator_pos && iterator_pos <= itCount(iterator_snap, iterator_pfx)
//@ loop 0 invariant snapshot: iterator_snap == raw && iterator_pfx == PActBind(req.ServiceName, req.Provider)
//@ loop 0 invariant listed_so_far: requests == reqsByMarkerIt(iterator_snap, iterator_pfx, iterator_pos)
//@ ensures [C17] exactly_the_pending_requests_of_the_binding: err == NoErr && result0.Requests == reqsByMarkerIt(raw, PActBind(req.ServiceName, req.Provider), itCount(raw, PActBind(req.ServiceName, req.Provider)))

//@ func (Keeper).RequestsByReqCtx
//@ vars (keeper.Keeper).RequestsByReqCtx: k=github.com/irismod/service/keeper.Keeper#0 c=context.Context#0 req=*github.com/irismod/service/types.QueryRequestsByReqCtxRequest#0 ctx=github.com/cosmos/cosmos-sdk/types.Context#0 iterator=github.com/cosmos/cosmos-sdk/types.Iterator#0 requests=[]*github.com/irismod/service/types.Request#0 requestID=[]byte#0 request=github.com/irismod/service/types.Request#0
//@ props C17 C18
//@ requires in_range: 0 <= req.BatchCounter && req.BatchCounter <= 18446744073709551615
//@ loop 0 invariant pos_in_range: 0 <= iterator_pos && iterator_pos <= itCount(iterator_snap, iterator_pfx)
//@ loop 0 invariant snapshot: iterator_snap == raw && iterator_pfx == PReqByCtx(req.RequestContextId, req.BatchCounter)
//@ loop 0 invariant listed_so_far: requests == reqsByKeyIt(iterator_snap, iterator_pfx, iterator_pos)
//@ ensures [C17] exactly_the_requests_of_the_batch: err == NoErr && result0.Requests == reqsByKeyIt(raw, PReqByCtx(req.RequestContextId, req.BatchCounter), itCount(raw, PReqByCtx(req.RequestContextId, req.BatchCounter)))

//@ func (Keeper).Response
//@ vars (keeper.Keeper).Response: k=github.com/irismod/service/keeper.Keeper#0 c=context.Context#0 req=*github.com/irismod/service/types.QueryResponseRequest#0 ctx=github.com/cosmos/cosmos-sdk/types.Context#0 response=github.com/irismod/service/types.Response#0
//@ props C17
//@ ensures [C17] the_stored_response_or_zero: err == NoErr ==> len(req.RequestId) == 58 && result0.Response == (raw[KResp(req.RequestId)] == bnil ? zero_Response : dec_Response(raw[KResp(req.RequestId)]))
//@ ensures [C17] error_iff_bad_length: (err == NoErr) <==> len(req.RequestId) == 58

//@ func (Keeper).Responses
//@ vars (keeper.Keeper).Responses: k=github.com/irismod/service/keeper.Keeper#0 c=context.Context#0 req=*github.com/irismod/service/types.QueryResponsesRequest#0 ctx=github.com/cosmos/cosmos-sdk/types.Context#0 iterator=github.com/cosmos/cosmos-sdk/types.Iterator#0 responses=[]*github.com/irismod/service/types.Response#0 response=github.com/irismod/service/types.Response#0
//@ props C17
//@ loop 0 invariant pos_in_range: 0 <= iterator_pos && iterator_pos <= itCount(iterator_snap, iterator_pfx)
//@ loop 0 invariant snapshot: iterator_snap == raw && iterator_pfx == PRespByCtx(req.RequestContextId, req.BatchCounter)
//@ loop 0 invariant listed_so_far: responses == respsIt(iterator_snap, iterator_pfx, iterator_pos)
//@ ensures [C17] exactly_the_responses_of_the_batch: err == NoErr && result0.Responses == respsIt(raw, PRespByCtx(req.RequestContextId, req.BatchCounter), itCount(raw, PRespByCtx(req.RequestContextId, req.BatchCounter)))

//@ func (Keeper).EarnedFees
//@ vars (keeper.Keeper).EarnedFees: k=github.com/irismod/service/keeper.Keeper#0 c=context.Context#0 req=*github.com/irismod/service/types.QueryEarnedFeesRequest#0 ctx=github.com/cosmos/cosmos-sdk/types.Context#0 fees=github.com/cosmos/cosmos-sdk/types.Coins#0 found=bool#0
//@ props C17 C13
//@ ensures [C17] the_recorded_earnings: err == NoErr && (forall d Str :: amt(result0.Fees, d) == pfxSum(raw, PEarned(req.Provider), d))

//@ func (Keeper).Params
//@ vars (keeper.Keeper).Params: k=github.com/irismod/service/keeper.Keeper#0 c=context.Context#0 req=*github.com/irismod/service/types.QueryParamsRequest#0 ctx=github.com/cosmos/cosmos-sdk/types.Context#0 params=github.com/irismod/service/types.Params#0
//@ props C17
//@ ensures [C17] the_parameters_in_force: err == NoErr && result0.Params == params

// ---------------------------------------------------------------- legacy querier (C17): same views as the gRPC methods, JSON-encoded.
// D(x) below is the decoded parameter struct jsonDec_<T>(req.Data); the answer is jsonEnc_<T>(view).
//@ func queryServiceDefinition
//@ vars keeper.queryServiceDefinition: ctx=github.com/cosmos/cosmos-sdk/types.Context#0 path=[]string#0 req=github.com/tendermint/tendermint/abci/types.RequestQuery#0 k=github.com/irismod/service/keeper.Keeper#0 legacyQuerierCdc=*github.com/cosmos/cosmos-sdk/codec.LegacyAmino#0 params=github.com/irismod/service/types.QueryDefinitionParams#0 err=error#0 definition=github.com/irismod/service/types.ServiceDefinition#0 found=bool#0 bz=[]byte#0 err=error#1
//@ props C17
//@ ensures [C17] same_view_as_grpc: err == NoErr ==> (let ps := jsonDec_QueryDefinitionParams(fld_Opaque_RequestQuery_Data(req)) in
//@      defFound(raw, ps.ServiceName) && result0 == jsonEnc_ServiceDefinition(dec_ServiceDefinition(raw[KDef(ps.ServiceName)])))

//@ func queryBinding
//@ vars keeper.queryBinding: ctx=github.com/cosmos/cosmos-sdk/types.Context#0 req=github.com/tendermint/tendermint/abci/types.RequestQuery#0 k=github.com/irismod/service/keeper.Keeper#0 legacyQuerierCdc=*github.com/cosmos/cosmos-sdk/codec.LegacyAmino#0 params=github.com/irismod/service/types.QueryBindingParams#0 err=error#0 svcBinding=github.com/irismod/service/types.ServiceBinding#0 found=bool#0 bz=[]byte#0 err=error#1
//@ props C17
//@ ensures [C17] same_view_as_grpc: err == NoErr ==> (let ps := jsonDec_QueryBindingParams(fld_Opaque_RequestQuery_Data(req)) in
//@      bindFound(raw, ps.ServiceName, ps.Provider) && result0 == jsonEnc_ServiceBinding(bindOf(raw, ps.ServiceName, ps.Provider)))

//@ func queryBindings
//@ vars keeper.queryBindings: ctx=github.com/cosmos/cosmos-sdk/types.Context#0 req=github.com/tendermint/tendermint/abci/types.RequestQuery#0 k=github.com/irismod/service/keeper.Keeper#0 legacyQuerierCdc=*github.com/cosmos/cosmos-sdk/codec.LegacyAmino#0 params=github.com/irismod/service/types.QueryBindingsParams#0 err=error#0 bindings=[]*github.com/irismod/service/types.ServiceBinding#0 iterator=github.com/cosmos/cosmos-sdk/types.Iterator#0 binding=github.com/irismod/service/types.ServiceBinding#0 bz=[]byte#0 err=error#1
//@ props C17 C15
//@ requires owner_address: (let ps := jsonDec_QueryBindingsParams(fld_Opaque_RequestQuery_Data(req)) in len(ps.Owner) == 0 || len(ps.Owner) == 20)
//@ loop 0 invariant pos_in_range: 0 <= iterator_pos && iterator_pos <= itCount(iterator_snap, iterator_pfx)
//@ loop 0 invariant snapshot: iterator_snap == raw && iterator_pfx == PBindSvc(params.ServiceName)
//@ loop 0 invariant listed_so_far: bindings == bindsIt(iterator_snap, iterator_pfx, iterator_pos)
//@ ensures [C17,C15] same_view_as_grpc: err == NoErr ==> (let ps := jsonDec_QueryBindingsParams(fld_Opaque_RequestQuery_Data(req)) in
//@      result0 == jsonEnc__Slice_ServiceBinding_(len(ps.Owner) == 0 ? bindsIt(raw, PBindSvc(ps.ServiceName), itCount(raw, PBindSvc(ps.ServiceName)))
//@           : ownerBindsIt(raw, POwnerBind(ps.Owner, ps.ServiceName), itCount(raw, POwnerBind(ps.Owner, ps.ServiceName)))))

//@ func queryWithdrawAddress
//@ vars keeper.queryWithdrawAddress: ctx=github.com/cosmos/cosmos-sdk/types.Context#0 req=github.com/tendermint/tendermint/abci/types.RequestQuery#0 k=github.com/irismod/service/keeper.Keeper#0 legacyQuerierCdc=*github.com/cosmos/cosmos-sdk/codec.LegacyAmino#0 params=github.com/irismod/service/types.QueryWithdrawAddressParams#0 err=error#0 withdrawAddr=github.com/cosmos/cosmos-sdk/types.AccAddress#0 bz=[]byte#0 err=error#1
//@ props C17
//@ ensures [C17] same_view_as_grpc: err == NoErr ==> result0 == jsonEnc_Bytes(withdrawAddrOf(raw, jsonDec_QueryWithdrawAddressParams(fld_Opaque_RequestQuery_Data(req)).Owner))

//@ func queryRequest
//@ vars keeper.queryRequest: ctx=github.com/cosmos/cosmos-sdk/types.Context#0 req=github.com/tendermint/tendermint/abci/types.RequestQuery#0 k=github.com/irismod/service/keeper.Keeper#0 legacyQuerierCdc=*github.com/cosmos/cosmos-sdk/codec.LegacyAmino#0 params=github.com/irismod/service/types.QueryRequestParams#0 err=error#0 request=github.com/irismod/service/types.Request#0 bz=[]byte#0 err=error#1
//@ props C17
//@ ensures [C17] same_view_as_grpc: err == NoErr ==> (let ps := jsonDec_QueryRequestParams(fld_Opaque_RequestQuery_Data(req)) in
//@      len(ps.RequestID) == 58 && result0 == jsonEnc_Request(requestOrZero(raw, ps.RequestID)))

//@ func queryRequests
//@ vars keeper.queryRequests: ctx=github.com/cosmos/cosmos-sdk/types.Context#0 req=github.com/tendermint/tendermint/abci/types.RequestQuery#0 k=github.com/irismod/service/keeper.Keeper#0 legacyQuerierCdc=*github.com/cosmos/cosmos-sdk/codec.LegacyAmino#0 params=github.com/irismod/service/types.QueryRequestsParams#0 err=error#0 iterator=github.com/cosmos/cosmos-sdk/types.Iterator#0 requests=[]github.com/irismod/service/types.Request#0 requestID=github.com/gogo/protobuf/types.BytesValue#0 request=github.com/irismod/service/types.Request#0 bz=[]byte#0 err=error#1
//@ props C17 C18
//@ loop 0 invariant pos_in_range: 0 <= iterator_pos && iterator_pos <= itCount(iterator_snap, iterator_pfx)
//@ loop 0 invariant snapshot: iterator_snap == raw && iterator_pfx == PActBind(params.ServiceName, params.Provider)
//@ loop 0 invariant listed_so_far: requests == reqsByMarkerIt(iterator_snap, iterator_pfx, iterator_pos)
//@ ensures [C17] same_view_as_grpc: err == NoErr ==> (let ps := jsonDec_QueryRequestsParams(fld_Opaque_RequestQuery_Data(req)) in
//@      result0 == jsonEnc__Slice_Request_(reqsByMarkerIt(raw, PActBind(ps.ServiceName, ps.Provider), itCount(raw, PActBind(ps.ServiceName, ps.Provider)))))

//@ func queryResponse
//@ vars keeper.queryResponse: ctx=github.com/cosmos/cosmos-sdk/types.Context#0 req=github.com/tendermint/tendermint/abci/types.RequestQuery#0 k=github.com/irismod/service/keeper.Keeper#0 legacyQuerierCdc=*github.com/cosmos/cosmos-sdk/codec.LegacyAmino#0 params=github.com/irismod/service/types.QueryResponseParams#0 err=error#0 response=github.com/irismod/service/types.Response#0 bz=[]byte#0 err=error#1
//@ props C17
//@ ensures [C17] same_view_as_grpc: err == NoErr ==> (let ps := jsonDec_QueryResponseParams(fld_Opaque_RequestQuery_Data(req)) in
//@      len(ps.RequestID) == 58 && result0 == jsonEnc_Response(raw[KResp(ps.RequestID)] == bnil ? zero_Response : dec_Response(raw[KResp(ps.RequestID)])))

//@ func queryRequestContext
//@ vars keeper.queryRequestContext: ctx=github.com/cosmos/cosmos-sdk/types.Context#0 req=github.com/tendermint/tendermint/abci/types.RequestQuery#0 k=github.com/irismod/service/keeper.Keeper#0 legacyQuerierCdc=*github.com/cosmos/cosmos-sdk/codec.LegacyAmino#0 params=github.com/irismod/service/types.QueryRequestContextParams#0 err=error#0 requestContext=github.com/irismod/service/types.RequestContext#0 bz=[]byte#0 err=error#1
//@ props C17
//@ ensures [C17] same_view_as_grpc: err == NoErr ==> result0 == jsonEnc_RequestContext(ctxOrZero(raw, jsonDec_QueryRequestContextParams(fld_Opaque_RequestQuery_Data(req)).RequestContextID))

//@ func queryRequestsByReqCtx
//@ vars keeper.queryRequestsByReqCtx: ctx=github.com/cosmos/cosmos-sdk/types.Context#0 req=github.com/tendermint/tendermint/abci/types.RequestQuery#0 k=github.com/irismod/service/keeper.Keeper#0 legacyQuerierCdc=*github.com/cosmos/cosmos-sdk/codec.LegacyAmino#0 params=github.com/irismod/service/types.QueryRequestsByReqCtxParams#0 err=error#0 iterator=github.com/cosmos/cosmos-sdk/types.Iterator#0 requests=[]github.com/irismod/service/types.Request#0 requestID=[]byte#0 request=github.com/irismod/service/types.Request#0 bz=[]byte#1 err=error#1
//@ props C17 C18
//@ loop 0 invariant pos_in_range: 0 <= iterator_pos && iterator_pos <= itCount(iterator_snap, iterator_pfx)
//@ loop 0 invariant snapshot: iterator_snap == raw && iterator_pfx == PReqByCtx(params.RequestContextID, params.BatchCounter)
//@ loop 0 invariant listed_so_far: requests == reqsByKeyIt(iterator_snap, iterator_pfx, iterator_pos)
//@ ensures [C17] same_view_as_grpc: err == NoErr ==> (let ps := jsonDec_QueryRequestsByReqCtxParams(fld_Opaque_RequestQuery_Data(req)) in
//@      result0 == jsonEnc__Slice_Request_(reqsByKeyIt(raw, PReqByCtx(ps.RequestContextID, ps.BatchCounter), itCount(raw, PReqByCtx(ps.RequestContextID, ps.BatchCounter)))))

//@ func queryResponses
//@ vars keeper.queryResponses: ctx=github.com/cosmos/cosmos-sdk/types.Context#0 req=github.com/tendermint/tendermint/abci/types.RequestQuery#0 k=github.com/irismod/service/keeper.Keeper#0 legacyQuerierCdc=*github.com/cosmos/cosmos-sdk/codec.LegacyAmino#0 params=github.com/irismod/service/types.QueryResponsesParams#0 err=error#0 iterator=github.com/cosmos/cosmos-sdk/types.Iterator#0 responses=[]github.com/irismod/service/types.Response#0 response=github.com/irismod/service/types.Response#0 bz=[]byte#0 err=error#1
//@ props C17
//@ loop 0 invariant pos_in_range: 0 <= iterator_pos && iterator_pos <= itCount(iterator_snap, iterator_pfx)
//@ loop 0 invariant snapshot: iterator_snap == raw && iterator_pfx == PRespByCtx(params.RequestContextID, params.BatchCounter)
//@ loop 0 invariant listed_so_far: responses == respsIt(iterator_snap, iterator_pfx, iterator_pos)
//@ ensures [C17] same_view_as_grpc: err == NoErr ==> (let ps := jsonDec_QueryResponsesParams(fld_Opaque_RequestQuery_Data(req)) in
//@      result0 == jsonEnc__Slice_Response_(respsIt(raw, PRespByCtx(ps.RequestContextID, ps.BatchCounter), itCount(raw, PRespByCtx(ps.RequestContextID, ps.BatchCounter)))))

//@ func queryEarnedFees
//@ vars keeper.queryEarnedFees: ctx=github.com/cosmos/cosmos-sdk/types.Context#0 req=github.com/tendermint/tendermint/abci/types.RequestQuery#0 k=github.com/irismod/service/keeper.Keeper#0 legacyQuerierCdc=*github.com/cosmos/cosmos-sdk/codec.LegacyAmino#0 params=github.com/irismod/service/types.QueryEarnedFeesParams#0 err=error#0 fees=github.com/cosmos/cosmos-sdk/types.Coins#0 found=bool#0 bz=[]byte#0 err=error#1
//@ props C17
//@ witness fees_ (Slice Coin) := fees
//@ ensures [C17] same_view_as_grpc: err == NoErr ==> result0 == jsonEnc__Slice_Coin_(fees_) &&
//@      (forall d Str :: amt(fees_, d) == pfxSum(raw, PEarned(jsonDec_QueryEarnedFeesParams(fld_Opaque_RequestQuery_Data(req)).Provider), d))

//@ func queryParams
//@ vars keeper.queryParams: ctx=github.com/cosmos/cosmos-sdk/types.Context#0 k=github.com/irismod/service/keeper.Keeper#0 legacyQuerierCdc=*github.com/cosmos/cosmos-sdk/codec.LegacyAmino#0 params=github.com/irismod/service/types.Params#0 bz=[]byte#0 err=error#0
//@ props C17
//@ ensures [C17] same_view_as_grpc: err == NoErr ==> result0 == jsonEnc_Params(params)

// ---------------------------------------------------------------- zero-height genesis preparation (C19)
//@ func (Keeper).RefundServiceFees
//@ vars (keeper.Keeper).RefundServiceFees: k=github.com/irismod/service/keeper.Keeper#0 ctx=github.com/cosmos/cosmos-sdk/types.Context#0 iterator=github.com/cosmos/cosmos-sdk/types.Iterator#0 requestID=github.com/gogo/protobuf/types.BytesValue#0 request=github.com/irismod/service/types.Request#0 err=error#0
//@ props C19
//@ modifies bal
//@ loop 0 invariant pos_in_range: 0 <= iterator_pos && iterator_pos <= itCount(iterator_snap, iterator_pfx)
//@ loop 0 invariant snapshot: iterator_snap == raw && iterator_pfx == PAllAct
//@ loop 0 invariant refunded_so_far: bal == refundIt(old(bal), iterator_snap, iterator_pfx, iterator_pos)
//@ ensures [C19] every_pending_fee_back_to_its_consumer: err == NoErr ==> bal == refundIt(old(bal), raw, PAllAct, itCount(raw, PAllAct))

//@ func (Keeper).RefundEarnedFees
//@ vars (keeper.Keeper).RefundEarnedFees: k=github.com/irismod/service/keeper.Keeper#0 ctx=github.com/cosmos/cosmos-sdk/types.Context#0 iterator=github.com/cosmos/cosmos-sdk/types.Iterator#0 earnedFee=github.com/cosmos/cosmos-sdk/types.Coin#0 key=[]byte#0 provider=github.com/cosmos/cosmos-sdk/types.AccAddress#0 err=error#0
//@ props C19 C18
//@ modifies bal
//@ requires records_match_their_keys: wfEarned(raw)
//@ loop 0 invariant pos_in_range: 0 <= iterator_pos && iterator_pos <= itCount(iterator_snap, iterator_pfx)
//@ loop 0 invariant snapshot: iterator_snap == raw && iterator_pfx == PAllEarned
//@ loop 0 invariant refunded_so_far: bal == refundEarnedIt(old(bal), iterator_snap, iterator_pfx, iterator_pos)
//@ ensures [C19] every_earning_back_to_the_provider_of_its_key: err == NoErr ==> bal == refundEarnedIt(old(bal), raw, PAllEarned, itCount(raw, PAllEarned))

//@ func (Keeper).ResetRequestContextsStateAndBatch
//@ vars (keeper.Keeper).ResetRequestContextsStateAndBatch: k=github.com/irismod/service/keeper.Keeper#0 ctx=github.com/cosmos/cosmos-sdk/types.Context#0
//@ vars (keeper.Keeper).IterateRequestContexts: k=github.com/irismod/service/keeper.Keeper#0 ctx=github.com/cosmos/cosmos-sdk/types.Context#0 op=func#0 requestContextID=github.com/tendermint/tendermint/libs/bytes.HexBytes#0 requestContext=github.com/irismod/service/types.RequestContext#0 stop=bool#0 store=github.com/cosmos/cosmos-sdk/types.KVStore#0 iterator=github.com/cosmos/cosmos-sdk/types.Iterator#0 requestContextID=[]byte#0 requestContext=github.com/irismod/service/types.RequestContext#1 stop=bool#1
//@ props C19 C18
//@ modifies raw
//@ loop IterateRequestContexts.0 invariant pos_in_range: 0 <= iterator_pos && iterator_pos <= itCount(iterator_snap, iterator_pfx)
//@ loop IterateRequestContexts.0 invariant snapshot: iterator_snap == old(raw) && iterator_pfx == PAllCtx
//@ loop IterateRequestContexts.0 invariant reset_so_far: forall k Key :: {raw[k]} raw[k] == ((is_KCtx(k) && iterator_snap[k] != bnil && itIdx(iterator_snap, iterator_pfx, k) < iterator_pos)
//@      ? enc_RequestContext(dec_RequestContext(iterator_snap[k])[State := PAUSED][BatchState := BATCHCOMPLETED][BatchRequestCount := 0][BatchResponseCount := 0]) : iterator_snap[k])
//@ ensures [C19] every_context_paused_with_no_batch_in_flight: forall k Key :: {raw[k]} raw[k] == ((is_KCtx(k) && old(raw)[k] != bnil)
//@      ? enc_RequestContext(dec_RequestContext(old(raw)[k])[State := PAUSED][BatchState := BATCHCOMPLETED][BatchRequestCount := 0][BatchResponseCount := 0]) : old(raw)[k])
//@ ensures err == NoErr

// ParsePricing: the structural facts every stored Pricing relies on are proved from the body; that the result is a
// deterministic function of the text (given the token registry) is an assumed clause.
//@ func (Keeper).ParsePricing
//@ vars (keeper.Keeper).ParsePricing: k=github.com/irismod/service/keeper.Keeper#0 ctx=github.com/cosmos/cosmos-sdk/types.Context#0 pricing=string#0 p=github.com/irismod/service/types.Pricing#0 err=error#0 rawPricing=github.com/irismod/service/types.RawPricing#0 err=error#1 token=github.com/cosmos/cosmos-sdk/types.DecCoin#0 tokenPrice=github.com/cosmos/cosmos-sdk/types.Coin#0 err=error#2 ft=github.com/irismod/service/types.TokenI#0 priceCoin=github.com/cosmos/cosmos-sdk/types.Coin#1
//@ props C20 C15 C14 C07
//@ ensures [C20,C15] exactly_one_price_coin_of_nonnegative_amount: err == NoErr ==> onePriceCoin(p)
//@ assumes deterministic_function_of_the_text: err == parsePricingErr(pricing) && (err == NoErr ==> p == parsePricing(pricing))

// ---------------------------------------------------------------- module services (dead in this repository: nothing registers one; reachable through RegisterModuleService)
// Called by handleMsgCallService right after CreateRequestContext has stored the one-shot context RUNNING and queued its first batch for this block.
//@ func (Keeper).RequestModuleService
//@ vars (keeper.Keeper).RequestModuleService: k=github.com/irismod/service/keeper.Keeper#0 ctx=github.com/cosmos/cosmos-sdk/types.Context#0 moduleService=*github.com/irismod/service/types.ModuleService#0 reqContextID=github.com/tendermint/tendermint/libs/bytes.HexBytes#0 consumer=github.com/cosmos/cosmos-sdk/types.AccAddress#0 input=string#0 requestContext=github.com/irismod/service/types.RequestContext#0 found=bool#0 totalPrices=github.com/cosmos/cosmos-sdk/types.Coins#0 err=error#0 err=error#1 requestIDs=[]github.com/tendermint/tendermint/libs/bytes.HexBytes#0 result=string#1 output=string#2 request=github.com/irismod/service/types.Request#0
//@ props C10 C01 C02
//@ preserves [C16] both_pending_indexes_list_the_same_requests: idxInv(raw)
//@ preserves [C16] no_orphan_request_or_response_record: recInv(raw)
//@ modifies raw, bal, supply, cblog
//@ preserves wf: WF(raw)
//@ preserves [C03] deposits_in_custody: depInv(raw, bal)
//@ preserves [C16,C04] pending_requests_stay_well_formed: actInv(raw)
//@ preserves [C12,C04] open_batches_count_their_pending_requests: cntInv(raw)
//@ requires [C11] the_first_batch_is_queued: futInv(raw, ctxHeight(ctx)) && cadInv(raw, ghostMaxTot) && schedInv(raw)
//@ ensures [C11,C10] invariants_after_the_immediate_batch: err == NoErr ==> futInv(raw, ctxHeight(ctx)) && cadInv(raw, ghostMaxTot) && schedInv(raw)
//@ requires just_created: ctxFound(raw, reqContextID) && rng_RequestContext(ctxOf(raw, reqContextID)) && ctxOf(raw, reqContextID).BatchCounter == 0 && !ctxOf(raw, reqContextID).Repeated &&
//@      ctxOf(raw, reqContextID).BatchState == BATCHCOMPLETED && len(ctxOf(raw, reqContextID).Providers) == 1 && ordinary(ctxOf(raw, reqContextID).Consumer) &&
//@      raw[KNewQ(ctxHeight(ctx), reqContextID)] == idVal(reqContextID) && raw[KNewH(reqContextID)] == hVal(ctxHeight(ctx)) && raw[KExpH(reqContextID)] == bnil
//@ ensures [C10,C01] the_immediate_batch_is_the_only_batch_of_this_one_shot_context: err == NoErr ==> raw[KNewQ(ctxHeight(ctx), reqContextID)] == bnil && raw[KNewH(reqContextID)] == bnil
//@ preserves [C01] escrow_exactly_backed: escInv(raw, bal) && earnNonneg(raw) && wfEarned(raw)
//@ ensures [C15] definitions_bindings_and_provider_owners_are_for_life: forLife(old(raw), raw)

// ---------------------------------------------------------------- genesis import of one binding (C19: price terms and ownership indexes are rebuilt)
//@ func (Keeper).SetServiceBindingForGenesis
//@ vars (keeper.Keeper).SetServiceBindingForGenesis: k=github.com/irismod/service/keeper.Keeper#0 ctx=github.com/cosmos/cosmos-sdk/types.Context#0 svcBinding=github.com/irismod/service/types.ServiceBinding#0 pricing=github.com/irismod/service/types.Pricing#0 err=error#0
//@ props C19 C15
//@ modifies raw
//@ ensures [C19,C15] record_price_terms_and_ownership_indexes_written: err == NoErr ==> raw == wrBind1(old(raw), svcBinding)
//@ ensures [C19] fails_only_on_unparsable_pricing: (err == NoErr) == (parsePricingErr(svcBinding.Pricing) == NoErr)

// ---------------------------------------------------------------- parameter getters: each reads the subspace under the key that ParamSetPairs registers for its field
//@ func (Keeper).MaxRequestTimeout
//@ vars (keeper.Keeper).MaxRequestTimeout: k=github.com/irismod/service/keeper.Keeper#0 ctx=github.com/cosmos/cosmos-sdk/types.Context#0 res=int64#0
//@ props C20 C04 C07 C14 C06
//@ ensures reads_its_own_parameter: res == params.MaxRequestTimeout

//@ func (Keeper).MinDepositMultiple
//@ vars (keeper.Keeper).MinDepositMultiple: k=github.com/irismod/service/keeper.Keeper#0 ctx=github.com/cosmos/cosmos-sdk/types.Context#0 res=int64#0
//@ props C20 C04 C07 C14 C06
//@ ensures reads_its_own_parameter: res == params.MinDepositMultiple

//@ func (Keeper).MinDeposit
//@ vars (keeper.Keeper).MinDeposit: k=github.com/irismod/service/keeper.Keeper#0 ctx=github.com/cosmos/cosmos-sdk/types.Context#0 res=github.com/cosmos/cosmos-sdk/types.Coins#0
//@ props C20 C04 C07 C14 C06
//@ ensures reads_its_own_parameter: res == params.MinDeposit

//@ func (Keeper).ServiceFeeTax
//@ vars (keeper.Keeper).ServiceFeeTax: k=github.com/irismod/service/keeper.Keeper#0 ctx=github.com/cosmos/cosmos-sdk/types.Context#0 res=github.com/cosmos/cosmos-sdk/types.Dec#0
//@ props C20 C04 C07 C14 C06
//@ ensures reads_its_own_parameter: res == params.ServiceFeeTax

//@ func (Keeper).SlashFraction
//@ vars (keeper.Keeper).SlashFraction: k=github.com/irismod/service/keeper.Keeper#0 ctx=github.com/cosmos/cosmos-sdk/types.Context#0 res=github.com/cosmos/cosmos-sdk/types.Dec#0
//@ props C20 C04 C07 C14 C06
//@ ensures reads_its_own_parameter: res == params.SlashFraction

//@ func (Keeper).ComplaintRetrospect
//@ vars (keeper.Keeper).ComplaintRetrospect: k=github.com/irismod/service/keeper.Keeper#0 ctx=github.com/cosmos/cosmos-sdk/types.Context#0 res=time.Duration#0
//@ props C20 C04 C07 C14 C06
//@ ensures reads_its_own_parameter: res == params.ComplaintRetrospect

//@ func (Keeper).ArbitrationTimeLimit
//@ vars (keeper.Keeper).ArbitrationTimeLimit: k=github.com/irismod/service/keeper.Keeper#0 ctx=github.com/cosmos/cosmos-sdk/types.Context#0 res=time.Duration#0
//@ props C20 C04 C07 C14 C06
//@ ensures reads_its_own_parameter: res == params.ArbitrationTimeLimit

//@ func (Keeper).TxSizeLimit
//@ vars (keeper.Keeper).TxSizeLimit: k=github.com/irismod/service/keeper.Keeper#0 ctx=github.com/cosmos/cosmos-sdk/types.Context#0 res=uint64#0
//@ props C20 C04 C07 C14 C06
//@ ensures reads_its_own_parameter: res == params.TxSizeLimit

//@ func (Keeper).BaseDenom
//@ vars (keeper.Keeper).BaseDenom: k=github.com/irismod/service/keeper.Keeper#0 ctx=github.com/cosmos/cosmos-sdk/types.Context#0 res=string#0
//@ props C20 C04 C07 C14 C06
//@ ensures reads_its_own_parameter: res == params.BaseDenom


// ---------------------------------------------------------------- schema query (C17): the two system schemas by (case-insensitive) name
//@ func (Keeper).Schema
//@ vars (keeper.Keeper).Schema: k=github.com/irismod/service/keeper.Keeper#0 c=context.Context#0 req=*github.com/irismod/service/types.QuerySchemaRequest#0 schemaName=string#0 schema=string#1
//@ props C17
//@ ensures [C17] the_named_system_schema: err == NoErr ==> ((strLower(req.SchemaName) == "pricing" && result0.Schema == k_types_PricingSchema) ||
//@      (strLower(req.SchemaName) == "result" && result0.Schema == k_types_ResultSchema))
//@ ensures [C17] error_exactly_for_other_names: (err == NoErr) <==> (strLower(req.SchemaName) == "pricing" || strLower(req.SchemaName) == "result")

//@ func querySchema
//@ vars keeper.querySchema: ctx=github.com/cosmos/cosmos-sdk/types.Context#0 req=github.com/tendermint/tendermint/abci/types.RequestQuery#0 k=github.com/irismod/service/keeper.Keeper#0 legacyQuerierCdc=*github.com/cosmos/cosmos-sdk/codec.LegacyAmino#0 params=github.com/irismod/service/types.QuerySchemaParams#0 err=error#0 schemaName=string#0 schema=string#1 bz=[]byte#0 err=error#1
//@ props C17
//@ ensures [C17] same_answer_as_grpc: err == NoErr ==> (let n := strLower(jsonDec_QuerySchemaParams(fld_Opaque_RequestQuery_Data(req)).SchemaName) in
//@      (n == "pricing" && result0 == jsonEnc_Str(k_types_PricingSchema)) || (n == "result" && result0 == jsonEnc_Str(k_types_ResultSchema)))
