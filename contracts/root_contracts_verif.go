//go:build verif
// +build verif

// Contracts (comment-only; no code). Checked by /verif/engine (govc) against the go/ssa of this package.
package service
