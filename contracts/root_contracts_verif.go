//go:build verif
// +build verif

// Contracts (comment-only; no code). Checked by /verif/engine (govc) against the go/ssa of this package.
package service

// ---------------------------------------------------------------- end-of-block closures
// EndBlocker$3 = newRequestBatchHandler(requestContextID, requestContext): called for every entry of the new-batch queue at this height,
// with the stored context (or the zero value if it is missing).
//@ func EndBlocker$3
//@ vars service.EndBlocker$3: requestContextID=github.com/tendermint/tendermint/libs/bytes.HexBytes#0 requestContext=github.com/irismod/service/types.RequestContext#0 providers=[]github.com/cosmos/cosmos-sdk/types.AccAddress#0 totalPrices=github.com/cosmos/cosmos-sdk/types.Coins#0 rawDenom=string#0 err=error#0 err=error#1 requestContext=github.com/irismod/service/types.RequestContext#1 batchState=github.com/irismod/service/types.BatchState#0 stateJSON=[]byte#0
//@ vars service.EndBlocker: ctx=github.com/cosmos/cosmos-sdk/types.Context#0 k=github.com/irismod/service/keeper.Keeper#0 expiredRequestHandler=func#0 expiredRequestBatchHandler=func#1 providerRequests=map[string][]string#0 newRequestBatchHandler=func#2 provider=string#0 requests=[]string#0 requestsJSON=[]byte#0 str=[]string#1
//@ props C06 C09 C01 C11 C10 C12 C20 C03
//@ requires [C16] both_pending_indexes_list_the_same_requests: idxInv(raw)
//@ requires [C16] no_orphan_request_or_response_record: recInv(raw)
//@ preserves [C10] never_more_batches_than_the_largest_total: cadInv(raw, ghostMaxTot)
//@ preserves [C12,C16,C08,C04] open_batches_count_their_pending_requests: cntInv(raw)
//@ modifies raw, bal, cblog
//@ preserves wf: WF(raw)
//@ preserves [C03] deposits_in_custody: depInv(raw, bal)
//@ requires a3_consumer_ordinary: ordinary(requestContext.Consumer)
//@ requires called_with_the_stored_context: ctxFound(raw, requestContextID) && requestContext == ctxOf(raw, requestContextID) && rng_RequestContext(requestContext)
//@ requires providers_bounded: len(requestContext.Providers) <= 32767
//@ requires [C11] processed_entry_is_well_formed: raw[KNewQ(ctxHeight(ctx), requestContextID)] != bnil && newOK(raw, ctxHeight(ctx), requestContextID)
//@ preserves [C16,C02,C01,C08,C04] pending_requests_stay_well_formed: actInv(raw)
//@ requires [C11] queues_are_well_formed: schedInv(raw)
//@ ensures [C11] contexts_stay_well_formed: ctxAllOK(raw)
//@ ensures [C11] expiry_entries_stay_well_formed: expAllOK(raw)
//@ ensures [C11] new_batch_entries_stay_well_formed: newAllOK(raw)
//@ ensures [C11] queue_pointers_stay_well_formed: ptrAllOK(raw)
//@ preserves [C11] no_event_in_the_past: futInv(raw, ctxHeight(ctx))
//@ ensures [C11] queue_entry_consumed: allBase(old(raw), requestContext.ServiceName, requestContext.Providers) || requestContext.State != RUNNING ==>
//@      raw[KNewQ(ctxHeight(ctx), requestContextID)] == bnil && raw[KNewH(requestContextID)] == bnil
//@ ensures [C11] queue_entry_consumed_when_a_price_is_not_in_base_denom: !allBase(old(raw), requestContext.ServiceName, requestContext.Providers) && requestContext.State == RUNNING ==>
//@      raw[KNewQ(ctxHeight(ctx), requestContextID)] == bnil && raw[KNewH(requestContextID)] == bnil
//@ ensures [C11,C16] touches_no_other_context_or_queue_entry: forall k Key :: {raw[k]}
//@      ((is_KCtx(k) && k != KCtx(requestContextID)) || (is_KNewQ(k) && k != KNewQ(ctxHeight(ctx), requestContextID)) || (is_KNewH(k) && k != KNewH(requestContextID)) ||
//@       (is_KExpQ(k) && k != KExpQ(wrap_i64(ctxHeight(ctx) + requestContext.Timeout), requestContextID)) || (is_KExpH(k) && k != KExpH(requestContextID))) ==> raw[k] == old(raw)[k]
//@ ensures [C03,C15,C07] touches_no_binding_price_terms_or_volume: forall k Key :: {raw[k]} (is_KBind(k) || is_KPricing(k) || is_KVol(k)) ==> raw[k] == old(raw)[k]
//@ ensures [C09] not_running_means_no_batch: requestContext.State != RUNNING ==> bal == old(bal) && cblog == old(cblog) &&
//@      raw == old(raw)[KNewQ(ctxHeight(ctx), requestContextID) := bnil][KNewH(requestContextID) := bnil]
//@ ensures [C06] skipped_without_charge_when_too_few_eligible: (let rc := requestContext in
//@      let F := filtIt(old(raw), ctxTime(ctx), rc.ServiceName, rc.Timeout, rc.ServiceFeeCap, rc.Consumer, rc.Providers, len(rc.Providers)) in
//@      rc.State == RUNNING && allBase(old(raw), rc.ServiceName, rc.Providers) && !(len(F) > 0 && len(F) >= rc.ResponseThreshold) ==> bal == old(bal) && cblog == old(cblog) &&
//@      raw == old(raw)[KCtx(requestContextID) := enc_RequestContext(rc[BatchCounter := wrap_u64(rc.BatchCounter + 1)][BatchState := BATCHRUNNING][BatchRequestCount := 0][BatchResponseCount := 0][BatchResponseThreshold := rc.ResponseThreshold])]
//@             [KExpQ(wrap_i64(ctxHeight(ctx) + rc.Timeout), requestContextID) := idVal(requestContextID)][KExpH(requestContextID) := hVal(wrap_i64(ctxHeight(ctx) + rc.Timeout))]
//@             [KNewQ(ctxHeight(ctx), requestContextID) := bnil][KNewH(requestContextID) := bnil])
//@ ensures [C06,C09,C01] paused_without_requests_or_charge_when_unpaid: (let rc := requestContext in
//@      let F := filtIt(old(raw), ctxTime(ctx), rc.ServiceName, rc.Timeout, rc.ServiceFeeCap, rc.Consumer, rc.Providers, len(rc.Providers)) in
//@      let Tot := totIt(old(raw), ctxTime(ctx), rc.ServiceName, rc.Timeout, rc.ServiceFeeCap, rc.Consumer, rc.Providers, len(rc.Providers)) in
//@      rc.State == RUNNING && allBase(old(raw), rc.ServiceName, rc.Providers) && len(F) > 0 && len(F) >= rc.ResponseThreshold && !rc.SuperMode && !canPay(old(bal), rc.Consumer, Tot) ==> bal == old(bal) &&
//@      raw == old(raw)[KCtx(requestContextID) := enc_RequestContext(rc[BatchState := BATCHCOMPLETED][State := PAUSED])][KNewQ(ctxHeight(ctx), requestContextID) := bnil][KNewH(requestContextID) := bnil])
//@ ensures [C06,C01,C08,C10] issues_to_exactly_the_eligible_and_charges_their_total: (let rc := requestContext in
//@      let F := filtIt(old(raw), ctxTime(ctx), rc.ServiceName, rc.Timeout, rc.ServiceFeeCap, rc.Consumer, rc.Providers, len(rc.Providers)) in
//@      let Tot := totIt(old(raw), ctxTime(ctx), rc.ServiceName, rc.Timeout, rc.ServiceFeeCap, rc.Consumer, rc.Providers, len(rc.Providers)) in
//@      rc.State == RUNNING && allBase(old(raw), rc.ServiceName, rc.Providers) && len(F) > 0 && len(F) >= rc.ResponseThreshold && (rc.SuperMode || canPay(old(bal), rc.Consumer, Tot)) ==>
//@      bal == (rc.SuperMode ? old(bal) : bankMove(old(bal), rc.Consumer, requestAcc, Tot)) && cblog == old(cblog) &&
//@      raw == issueIt(old(raw), ctxTime(ctx), ctxHeight(ctx), requestContextID, rc, wrap_u64(rc.BatchCounter + 1), F, len(F))
//@             [KCtx(requestContextID) := enc_RequestContext(rc[BatchCounter := wrap_u64(rc.BatchCounter + 1)][BatchState := BATCHRUNNING][BatchResponseCount := 0][BatchRequestCount := wrap_u32(len(F))][BatchResponseThreshold := rc.ResponseThreshold])]
//@             [KExpQ(wrap_i64(ctxHeight(ctx) + rc.Timeout), requestContextID) := idVal(requestContextID)][KExpH(requestContextID) := hVal(wrap_i64(ctxHeight(ctx) + rc.Timeout))]
//@             [KNewQ(ctxHeight(ctx), requestContextID) := bnil][KNewH(requestContextID) := bnil])
//@ ensures [C05] only_the_consumer_of_an_issued_batch_is_debited: forall a Bytes, d Str :: {bal[a][d]} ordinary(a) && bal[a][d] < old(bal)[a][d] ==>
//@      issuedNow(raw, requestContextID, a)
//@ requires [C01] escrow_exactly_backed: escInv(raw, bal) && earnNonneg(raw)
//@ ensures [C01] earnings_untouched: earnNonneg(raw) && (forall d Str :: {sumEarn(raw, d)} sumEarn(raw, d) == sumEarn(old(raw), d))
//@ ensures [C01,C02] pending_total_grows_by_exactly_what_is_charged: (let rc := requestContext in
//@      let F := filtIt(old(raw), ctxTime(ctx), rc.ServiceName, rc.Timeout, rc.ServiceFeeCap, rc.Consumer, rc.Providers, len(rc.Providers)) in
//@      let Tot := totIt(old(raw), ctxTime(ctx), rc.ServiceName, rc.Timeout, rc.ServiceFeeCap, rc.Consumer, rc.Providers, len(rc.Providers)) in
//@      let charged := rc.State == RUNNING && len(F) > 0 && len(F) >= rc.ResponseThreshold && !rc.SuperMode && canPay(old(bal), rc.Consumer, Tot) in
//@      (allBase(old(raw), rc.ServiceName, rc.Providers) || rc.State != RUNNING) ==>
//@      (forall d Str :: {sumPend(raw, d)} sumPend(raw, d) == sumPend(old(raw), d) + (charged ? amt(Tot, d) : 0)) &&
//@      (forall d Str :: {bal[requestAcc][d]} bal[requestAcc][d] == old(bal)[requestAcc][d] + (charged ? amt(Tot, d) : 0)))
//@ ensures [C01,C02] escrow_exactly_backed_kept: (allBase(old(raw), requestContext.ServiceName, requestContext.Providers) || requestContext.State != RUNNING) ==> escInv(raw, bal)
//@ after escrow_exactly_backed_kept assume earnings_untouched pending_total_grows_by_exactly_what_is_charged
//@ ensures [C16] every_by_id_marker_has_its_twin: idxAllA(raw)
//@ ensures [C16] every_by_binding_marker_is_a_twin: idxAllB(raw)
//@ ensures [C16] no_orphan_request_or_response_record_kept: recInv(raw)
//@ ensures [C15] definitions_bindings_and_provider_owners_are_for_life: forLife(old(raw), raw)

// EndBlocker$1 = expiredRequestHandler(requestID, request): called for every still-pending request of an expired batch.
//@ func EndBlocker$1
//@ vars service.EndBlocker$1: requestID=github.com/tendermint/tendermint/libs/bytes.HexBytes#0 request=github.com/irismod/service/types.Request#0
//@ vars service.EndBlocker: ctx=github.com/cosmos/cosmos-sdk/types.Context#0 k=github.com/irismod/service/keeper.Keeper#0 expiredRequestHandler=func#0 expiredRequestBatchHandler=func#1 providerRequests=map[string][]string#0 newRequestBatchHandler=func#2 provider=string#0 requests=[]string#0 requestsJSON=[]byte#0 str=[]string#1
//@ props C02 C04 C08 C16 C03 C20
//@ preserves [C16] both_pending_indexes_list_the_same_requests: idxInv(raw)
//@ preserves [C01,C02,C16,C04] pending_requests_stay_well_formed: actInv(raw)
//@ modifies raw, bal, supply
//@ preserves wf: WF(raw)
//@ preserves [C03] deposits_in_custody: depInv(raw, bal)
//@ requires called_with_the_stored_request: requestFound(raw, requestID) && request == requestOf(raw, requestID)
//@ requires [C04] binding_of_request_exists: bindFound(raw, reqSvc(raw, requestID), reqProv(raw, requestID))
//@ requires consumer_ordinary: ordinary(reqConsumer(raw, requestID))
//@ requires [C02] still_pending: isActive(raw, requestID)
//@ ensures [C02,C08,C16] no_longer_pending_in_either_index: raw[KActID(requestID)] == bnil && raw[KActB(request.ServiceName, request.Provider, request.ExpirationHeight, requestID)] == bnil
//@ ensures [C04,C07] super_mode_neither_slashes_nor_refunds: request.SuperMode ==> bal == old(bal) && supply == old(supply) &&
//@      raw == old(raw)[KActB(request.ServiceName, request.Provider, request.ExpirationHeight, requestID) := bnil][KActID(requestID) := bnil]
//@ ensures [C04,C02] timeout_slashes_the_binding_and_refunds_the_consumer: !request.SuperMode ==> (let burn := slashBurn(old(raw), requestID) in
//@      let slashed := !hasNeg(bindOf(old(raw), request.ServiceName, request.Provider).Deposit, burn) && canPay(old(bal), depositAcc, burn) in
//@      let bal1 := (slashed ? bankBurn(old(bal), depositAcc, burn) : old(bal)) in
//@      supply == (slashed ? supplyBurn(old(supply), burn) : old(supply)) &&
//@      bal == (canPay(bal1, requestAcc, request.ServiceFee) ? bankMove(bal1, requestAcc, request.Consumer, request.ServiceFee) : bal1))
//@ ensures [C15] binding_is_never_deleted: bindFound(raw, request.ServiceName, request.Provider)
//@ ensures [C16,C15] touches_only_the_binding_and_the_two_markers: forall k Key :: {raw[k]}
//@      (k != KBind(request.ServiceName, request.Provider) && k != KActID(requestID) && k != KActB(request.ServiceName, request.Provider, request.ExpirationHeight, requestID)) ==> raw[k] == old(raw)[k]
//@ ensures [C12,C16] uncounts_exactly_this_marker: forall id Bytes :: {cntAct(raw, id)} cntAct(raw, id) == cntAct(old(raw), id) - ((id == ridCtx(requestID) && isActive(old(raw), requestID)) ? 1 : 0)
//@ ensures [C05] no_ordinary_account_is_debited: forall a Bytes, d Str :: {bal[a][d]} ordinary(a) ==> bal[a][d] >= old(bal)[a][d]
//@ requires [C01] escrow_exactly_backed: escInv(raw, bal) && earnNonneg(raw)
//@ ensures [C01] earnings_untouched: earnNonneg(raw) && (forall d Str :: {sumEarn(raw, d)} sumEarn(raw, d) == sumEarn(old(raw), d))
//@ ensures [C01] pending_total_drops_by_this_fee: forall d Str :: {sumPend(raw, d)} sumPend(raw, d) == sumPend(old(raw), d) - amt(request.ServiceFee, d)
//@ ensures [C01,C02] the_escrow_can_always_pay_the_refund: !request.SuperMode ==> (let burn := slashBurn(old(raw), requestID) in
//@      let slashed := !hasNeg(bindOf(old(raw), request.ServiceName, request.Provider).Deposit, burn) && canPay(old(bal), depositAcc, burn) in
//@      let bal1 := (slashed ? bankBurn(old(bal), depositAcc, burn) : old(bal)) in canPay(bal1, requestAcc, request.ServiceFee))
//@ after the_escrow_can_always_pay_the_refund assume earnings_untouched pending_total_drops_by_this_fee pending_requests_stay_well_formed_kept
//@ ensures [C01,C02] escrow_exactly_backed_kept: escInv(raw, bal)
//@ after escrow_exactly_backed_kept assume the_escrow_can_always_pay_the_refund earnings_untouched pending_total_drops_by_this_fee timeout_slashes_the_binding_and_refunds_the_consumer super_mode_neither_slashes_nor_refunds
//@ ensures [C15] definitions_bindings_and_provider_owners_are_for_life: forLife(old(raw), raw)

// EndBlocker$2 = expiredRequestBatchHandler(requestContextID, requestContext): called for every entry of the expiry queue at this height.
//@ func EndBlocker$2
//@ vars service.EndBlocker$2: requestContextID=github.com/tendermint/tendermint/libs/bytes.HexBytes#0 requestContext=github.com/irismod/service/types.RequestContext#0 resContext=github.com/irismod/service/types.RequestContext#1
//@ vars (keeper.Keeper).IterateActiveRequests: k=github.com/irismod/service/keeper.Keeper#0 ctx=github.com/cosmos/cosmos-sdk/types.Context#0 requestContextID=github.com/tendermint/tendermint/libs/bytes.HexBytes#0 batchCounter=uint64#0 op=func#0 requestID=github.com/tendermint/tendermint/libs/bytes.HexBytes#1 request=github.com/irismod/service/types.Request#0 iterator=github.com/cosmos/cosmos-sdk/types.Iterator#0 requestID=github.com/gogo/protobuf/types.BytesValue#0 request=github.com/irismod/service/types.Request#1
//@ vars service.EndBlocker: ctx=github.com/cosmos/cosmos-sdk/types.Context#0 k=github.com/irismod/service/keeper.Keeper#0 expiredRequestHandler=func#0 expiredRequestBatchHandler=func#1 providerRequests=map[string][]string#0 newRequestBatchHandler=func#2 provider=string#0 requests=[]string#0 requestsJSON=[]byte#0 str=[]string#1
//@ props C16 C11 C10 C09 C12 C08 C02 C04 C20
//@ preserves [C16] both_pending_indexes_list_the_same_requests: idxInv(raw)
//@ preserves [C16] no_orphan_request_or_response_record: recInv(raw)
//@ preserves [C10] never_more_batches_than_the_largest_total: cadInv(raw, ghostMaxTot)
//@ preserves [C12,C16,C08,C04] open_batches_count_their_pending_requests: cntInv(raw)
//@ modifies raw, bal, supply, cblog
//@ preserves wf: WF(raw)
//@ preserves [C03] deposits_in_custody: depInv(raw, bal)
//@ requires called_with_the_stored_context: ctxFound(raw, requestContextID) && requestContext == ctxOf(raw, requestContextID) && rng_RequestContext(requestContext)
//@ preserves [C16,C02,C01] pending_requests_are_well_formed: actInv(raw)
//@ requires [C11] processed_entry_is_present: raw[KExpQ(ctxHeight(ctx), requestContextID)] != bnil
//@ preserves [C11] queues_stay_well_formed: schedInv(raw)
//@ loop IterateActiveRequests.0 invariant pos_in_range: 0 <= iterator_pos && iterator_pos <= itCount(iterator_snap, iterator_pfx)
//@ loop IterateActiveRequests.0 invariant snapshot: iterator_snap == old(raw) && iterator_pfx == PActByCtx(requestContextID, batchCounter) && batchCounter == old(requestContext).BatchCounter && cblog == old(cblog)
//@ loop IterateActiveRequests.0 invariant wf: WF(raw) && depInv(raw, bal)
//@ loop IterateActiveRequests.0 invariant [C15] for_life: forLife(iterator_snap, raw)
//@ loop IterateActiveRequests.0 invariant [C16] both_pending_indexes_list_the_same_requests: idxInv(raw)
//@ loop IterateActiveRequests.0 invariant no_binding_created: forall s Str, p Bytes :: {raw[KBind(s, p)]} bindFound(raw, s, p) ==> bindFound(iterator_snap, s, p)
//@ loop IterateActiveRequests.0 invariant [C01] escrow_exactly_backed: escInv(raw, bal) && earnNonneg(raw)
//@ loop IterateActiveRequests.0 invariant [C05] no_ordinary_account_debited_so_far: forall a Bytes, d Str :: {bal[a][d]} ordinary(a) ==> bal[a][d] >= old(bal)[a][d]
//@ loop IterateActiveRequests.0 invariant [C12] counts_of_other_contexts_kept: forall id Bytes :: {raw[KCtx(id)]} {cntAct(raw, id)} id != requestContextID ==> batchOK(raw, id)
//@ loop IterateActiveRequests.0 invariant records_untouched: forall k Key :: {raw[k]} (!is_KBind(k) && !is_KActB(k) && !is_KActID(k)) ==> raw[k] == iterator_snap[k]
//@ loop IterateActiveRequests.0 invariant bindings_stay: forall s Str, p Bytes :: {raw[KBind(s, p)]} bindFound(iterator_snap, s, p) ==> bindFound(raw, s, p)
//@ loop IterateActiveRequests.0 invariant markers_expired_so_far: forall k Key :: {raw[k]} is_KActID(k) ==> raw[k] ==
//@      ((inPfx(k, iterator_pfx) && iterator_snap[k] != bnil && itIdx(iterator_snap, iterator_pfx, k) < iterator_pos) ? bnil : iterator_snap[k])
//@ requires [C11] no_event_in_the_past: futInv(raw, ctxHeight(ctx))
//@ ensures [C11,C10] no_event_in_the_past_kept: (let rc := requestContext in
//@      !(rc.State == RUNNING && rc.Repeated && (rc.RepeatedTotal < 0 || wrap_i64(rc.BatchCounter) < rc.RepeatedTotal)) || ctxHeight(ctx) - rc.Timeout + rc.RepeatedFrequency <= 9223372036854775807
//@      ==> futInv(raw, ctxHeight(ctx)))
//@ ensures [C11,C10] no_event_in_the_past_when_the_frequency_overflows_int64: (let rc := requestContext in
//@      rc.State == RUNNING && rc.Repeated && (rc.RepeatedTotal < 0 || wrap_i64(rc.BatchCounter) < rc.RepeatedTotal) && ctxHeight(ctx) - rc.Timeout + rc.RepeatedFrequency > 9223372036854775807
//@      ==> futInv(raw, ctxHeight(ctx)))
//@ ensures [C11] expiry_entry_consumed: raw[KExpQ(ctxHeight(ctx), requestContextID)] == bnil && raw[KExpH(requestContextID)] == bnil
//@ ensures [C10,C11] next_batch_scheduled_frequency_after_this_batch_started: (let rc := requestContext in
//@      rc.State == RUNNING && rc.Repeated && (rc.RepeatedTotal < 0 || wrap_i64(rc.BatchCounter) < rc.RepeatedTotal) ==>
//@      (let next := wrap_i64(wrap_i64(ctxHeight(ctx) - rc.Timeout) + wrap_i64(rc.RepeatedFrequency)) in raw[KNewQ(next, requestContextID)] == idVal(requestContextID) && raw[KNewH(requestContextID)] == hVal(next)))
//@ ensures [C16,C09,C10] context_removed_exactly_when_finished: (let rc := requestContext in
//@      let finished := rc.State == COMPLETED || (rc.State == RUNNING && !(rc.Repeated && (rc.RepeatedTotal < 0 || wrap_i64(rc.BatchCounter) < rc.RepeatedTotal))) in
//@      raw[KCtx(requestContextID)] == (finished ? bnil : enc_RequestContext(rc[BatchState := BATCHCOMPLETED])))
//@ ensures [C16] batch_request_records_removed: forall rid Bytes :: {raw[KReq(rid)]} ridCtx(rid) == requestContextID && ridBatch(rid) == requestContext.BatchCounter ==> raw[KReq(rid)] == bnil
//@ ensures [C16,C08] no_request_of_the_batch_stays_pending: requestContext.BatchState != BATCHCOMPLETED ==>
//@      (forall rid Bytes :: {raw[KActID(rid)]} ridCtx(rid) == requestContextID && ridBatch(rid) == requestContext.BatchCounter ==> raw[KActID(rid)] == bnil)
//@ ensures [C11,C16] touches_no_other_context_or_queue_entry: forall k Key :: {raw[k]}
//@      ((is_KCtx(k) && k != KCtx(requestContextID)) || (is_KExpQ(k) && k != KExpQ(ctxHeight(ctx), requestContextID)) || (is_KExpH(k) && k != KExpH(requestContextID)) ||
//@       (is_KNewQ(k) && knq_id(k) != requestContextID) || (is_KNewH(k) && k != KNewH(requestContextID))) ==> raw[k] == old(raw)[k]
//@ ensures [C12] callback_once_if_the_batch_was_still_open: (let rc := requestContext in requestContext.BatchState == BATCHCOMPLETED || len(rc.ModuleName) == 0 ==> cblog == old(cblog))
//@ ensures [C05] no_ordinary_account_is_debited: forall a Bytes, d Str :: {bal[a][d]} ordinary(a) ==> bal[a][d] >= old(bal)[a][d]
//@ preserves [C01,C02] escrow_exactly_backed: escInv(raw, bal) && earnNonneg(raw)
//@ ensures [C01,C15] price_terms_untouched_no_binding_created: (forall k Key :: {raw[k]} is_KPricing(k) ==> raw[k] == old(raw)[k]) &&
//@      (forall s Str, p Bytes :: {raw[KBind(s, p)]} bindFound(raw, s, p) ==> bindFound(old(raw), s, p))
//@ ensures [C15] definitions_bindings_and_provider_owners_are_for_life: forLife(old(raw), raw)

// ---------------------------------------------------------------- message handlers (C05: authority; a message debits only its signer)
//@ func handleMsgDefineService
//@ vars service.handleMsgDefineService: ctx=github.com/cosmos/cosmos-sdk/types.Context#0 k=github.com/irismod/service/keeper.Keeper#0 msg=*github.com/irismod/service/types.MsgDefineService#0 err=error#0
//@ props C05 C15 C20
//@ preserves [C16] both_pending_indexes_list_the_same_requests: idxInv(raw)
//@ preserves [C16] no_orphan_request_or_response_record: recInv(raw)
//@ preserves [C01,C02] escrow_exactly_backed: escInv(raw, bal) && earnNonneg(raw) && wfEarned(raw)
//@ preserves [C10] never_more_batches_than_the_largest_total: cadInv(raw, ghostMaxTot)
//@ preserves [C11] no_event_in_the_past: futInv(raw, ctxHeight(ctx))
//@ preserves [C12,C16,C08,C04] open_batches_count_their_pending_requests: cntInv(raw)
//@ preserves [C11] queues_stay_well_formed: schedInv(raw)
//@ preserves [C16,C08,C02,C01,C04] pending_requests_stay_well_formed: actInv(raw)
//@ modifies raw
//@ ensures [C15] defines_once: err == NoErr ==> !defFound(old(raw), msg.Name) && raw == old(raw)[KDef(msg.Name) := raw[KDef(msg.Name)]]
//@ ensures error_changes_nothing: err != NoErr ==> raw == old(raw)
//@ ensures [C15] definitions_bindings_and_provider_owners_are_for_life: forLife(old(raw), raw)

//@ func handleMsgBindService
//@ vars service.handleMsgBindService: ctx=github.com/cosmos/cosmos-sdk/types.Context#0 k=github.com/irismod/service/keeper.Keeper#0 msg=*github.com/irismod/service/types.MsgBindService#0 found=bool#0 err=error#0
//@ props C05 C03 C14 C15 C20
//@ preserves [C16] both_pending_indexes_list_the_same_requests: idxInv(raw)
//@ preserves [C16] no_orphan_request_or_response_record: recInv(raw)
//@ preserves [C01,C02] escrow_exactly_backed: escInv(raw, bal) && earnNonneg(raw) && wfEarned(raw)
//@ preserves [C10] never_more_batches_than_the_largest_total: cadInv(raw, ghostMaxTot)
//@ preserves [C11] no_event_in_the_past: futInv(raw, ctxHeight(ctx))
//@ preserves [C12,C16,C08,C04] open_batches_count_their_pending_requests: cntInv(raw)
//@ preserves [C11] queues_stay_well_formed: schedInv(raw)
//@ preserves [C16,C08,C02,C01,C04] pending_requests_stay_well_formed: actInv(raw)
//@ modifies raw, bal
//@ preserves wf: WF(raw)
//@ preserves [C03] deposits_in_custody: depInv(raw, bal)
//@ requires a3_signer_ordinary: ordinary(msg.Owner)
//@ requires a2_validated: (forall d Str :: amt(msg.Deposit, d) >= 0) && coinsValid(msg.Deposit) && msg.QoS > 0 && len(msg.Provider) > 0 && len(msg.Owner) > 0
//@ ensures [C05] module_services_cannot_be_bound: err == NoErr ==> !moduleSvcFound(msg.ServiceName)
//@ ensures [C05] provider_keeps_its_owner: err == NoErr ==> (ownerFound(old(raw), msg.Provider) ==> addrEq(msg.Owner, ownerOf(old(raw), msg.Provider)))
//@ ensures [C05] only_the_signer_is_debited: forall a Bytes, d Str :: {bal[a][d]} a != msg.Owner ==> bal[a][d] >= old(bal)[a][d]
//@ ensures error_changes_nothing: err != NoErr ==> raw == old(raw) && bal == old(bal)
//@ ensures [C15] definitions_bindings_and_provider_owners_are_for_life: forLife(old(raw), raw)

//@ func handleMsgUpdateServiceBinding
//@ vars service.handleMsgUpdateServiceBinding: ctx=github.com/cosmos/cosmos-sdk/types.Context#0 k=github.com/irismod/service/keeper.Keeper#0 msg=*github.com/irismod/service/types.MsgUpdateServiceBinding#0 err=error#0
//@ props C05 C03 C14 C20
//@ preserves [C16] both_pending_indexes_list_the_same_requests: idxInv(raw)
//@ preserves [C16] no_orphan_request_or_response_record: recInv(raw)
//@ preserves [C01,C02] escrow_exactly_backed: escInv(raw, bal) && earnNonneg(raw) && wfEarned(raw)
//@ preserves [C10] never_more_batches_than_the_largest_total: cadInv(raw, ghostMaxTot)
//@ preserves [C11] no_event_in_the_past: futInv(raw, ctxHeight(ctx))
//@ preserves [C12,C16,C08,C04] open_batches_count_their_pending_requests: cntInv(raw)
//@ preserves [C11] queues_stay_well_formed: schedInv(raw)
//@ preserves [C16,C08,C02,C01,C04] pending_requests_stay_well_formed: actInv(raw)
//@ modifies raw, bal
//@ preserves wf: WF(raw)
//@ preserves [C03] deposits_in_custody: depInv(raw, bal)
//@ requires a3_signer_ordinary: ordinary(msg.Owner)
//@ requires a2_validated: (forall d Str :: amt(msg.Deposit, d) >= 0) && (len(msg.Deposit) == 0 || coinsValid(msg.Deposit))
//@ ensures [C05] only_the_binding_owner: err == NoErr ==> bindFound(old(raw), msg.ServiceName, msg.Provider) && addrEq(msg.Owner, bindOf(old(raw), msg.ServiceName, msg.Provider).Owner)
//@ ensures [C05] only_the_signer_is_debited: forall a Bytes, d Str :: {bal[a][d]} a != msg.Owner ==> bal[a][d] >= old(bal)[a][d]
//@ ensures [C15] definitions_bindings_and_provider_owners_are_for_life: forLife(old(raw), raw)

//@ func handleMsgSetWithdrawAddress
//@ vars service.handleMsgSetWithdrawAddress: ctx=github.com/cosmos/cosmos-sdk/types.Context#0 k=github.com/irismod/service/keeper.Keeper#0 msg=*github.com/irismod/service/types.MsgSetWithdrawAddress#0
//@ props C05 C13 C20
//@ preserves [C16] both_pending_indexes_list_the_same_requests: idxInv(raw)
//@ preserves [C16] no_orphan_request_or_response_record: recInv(raw)
//@ preserves [C01,C02] escrow_exactly_backed: escInv(raw, bal) && earnNonneg(raw) && wfEarned(raw)
//@ preserves [C10] never_more_batches_than_the_largest_total: cadInv(raw, ghostMaxTot)
//@ preserves [C11] no_event_in_the_past: futInv(raw, ctxHeight(ctx))
//@ preserves [C12,C16,C08,C04] open_batches_count_their_pending_requests: cntInv(raw)
//@ preserves [C11] queues_stay_well_formed: schedInv(raw)
//@ preserves [C16,C08,C02,C01,C04] pending_requests_stay_well_formed: actInv(raw)
//@ modifies raw
//@ ensures [C13,C05] only_the_signers_own_withdrawal_address_changes: raw == old(raw)[KWAddr(msg.Owner) := raw[KWAddr(msg.Owner)]] && withdrawAddrOf(raw, msg.Owner) == msg.WithdrawAddress
//@ requires a2_validated: len(msg.WithdrawAddress) > 0
//@ ensures [C15] definitions_bindings_and_provider_owners_are_for_life: forLife(old(raw), raw)

//@ func handleMsgDisableServiceBinding
//@ vars service.handleMsgDisableServiceBinding: ctx=github.com/cosmos/cosmos-sdk/types.Context#0 k=github.com/irismod/service/keeper.Keeper#0 msg=*github.com/irismod/service/types.MsgDisableServiceBinding#0 err=error#0
//@ props C05 C03 C20
//@ preserves [C16] both_pending_indexes_list_the_same_requests: idxInv(raw)
//@ preserves [C16] no_orphan_request_or_response_record: recInv(raw)
//@ preserves [C01,C02] escrow_exactly_backed: escInv(raw, bal) && earnNonneg(raw) && wfEarned(raw)
//@ preserves [C10] never_more_batches_than_the_largest_total: cadInv(raw, ghostMaxTot)
//@ preserves [C11] no_event_in_the_past: futInv(raw, ctxHeight(ctx))
//@ preserves [C12,C16,C08,C04] open_batches_count_their_pending_requests: cntInv(raw)
//@ preserves [C11] queues_stay_well_formed: schedInv(raw)
//@ preserves [C16,C08,C02,C01,C04] pending_requests_stay_well_formed: actInv(raw)
//@ modifies raw
//@ preserves wf: WF(raw)
//@ preserves [C03] deposits_in_custody: depInv(raw, bal)
//@ ensures [C05] only_the_binding_owner: err == NoErr ==> bindFound(old(raw), msg.ServiceName, msg.Provider) && addrEq(msg.Owner, bindOf(old(raw), msg.ServiceName, msg.Provider).Owner)
//@ ensures error_changes_nothing: err != NoErr ==> raw == old(raw)
//@ ensures [C15] definitions_bindings_and_provider_owners_are_for_life: forLife(old(raw), raw)

//@ func handleMsgEnableServiceBinding
//@ vars service.handleMsgEnableServiceBinding: ctx=github.com/cosmos/cosmos-sdk/types.Context#0 k=github.com/irismod/service/keeper.Keeper#0 msg=*github.com/irismod/service/types.MsgEnableServiceBinding#0 err=error#0
//@ props C05 C03 C14 C20
//@ preserves [C16] both_pending_indexes_list_the_same_requests: idxInv(raw)
//@ preserves [C16] no_orphan_request_or_response_record: recInv(raw)
//@ preserves [C01,C02] escrow_exactly_backed: escInv(raw, bal) && earnNonneg(raw) && wfEarned(raw)
//@ preserves [C10] never_more_batches_than_the_largest_total: cadInv(raw, ghostMaxTot)
//@ preserves [C11] no_event_in_the_past: futInv(raw, ctxHeight(ctx))
//@ preserves [C12,C16,C08,C04] open_batches_count_their_pending_requests: cntInv(raw)
//@ preserves [C11] queues_stay_well_formed: schedInv(raw)
//@ preserves [C16,C08,C02,C01,C04] pending_requests_stay_well_formed: actInv(raw)
//@ modifies raw, bal
//@ preserves wf: WF(raw)
//@ preserves [C03] deposits_in_custody: depInv(raw, bal)
//@ requires a3_signer_ordinary: ordinary(msg.Owner)
//@ requires a2_validated: (forall d Str :: amt(msg.Deposit, d) >= 0) && (len(msg.Deposit) == 0 || coinsValid(msg.Deposit))
//@ ensures [C05] only_the_binding_owner: err == NoErr ==> bindFound(old(raw), msg.ServiceName, msg.Provider) && addrEq(msg.Owner, bindOf(old(raw), msg.ServiceName, msg.Provider).Owner)
//@ ensures [C05] only_the_signer_is_debited: forall a Bytes, d Str :: {bal[a][d]} a != msg.Owner ==> bal[a][d] >= old(bal)[a][d]
//@ ensures error_changes_nothing: err != NoErr ==> raw == old(raw) && bal == old(bal)
//@ ensures [C15] definitions_bindings_and_provider_owners_are_for_life: forLife(old(raw), raw)

//@ func handleMsgRefundServiceDeposit
//@ vars service.handleMsgRefundServiceDeposit: ctx=github.com/cosmos/cosmos-sdk/types.Context#0 k=github.com/irismod/service/keeper.Keeper#0 msg=*github.com/irismod/service/types.MsgRefundServiceDeposit#0 err=error#0
//@ props C05 C03 C20
//@ preserves [C16] both_pending_indexes_list_the_same_requests: idxInv(raw)
//@ preserves [C16] no_orphan_request_or_response_record: recInv(raw)
//@ preserves [C01,C02] escrow_exactly_backed: escInv(raw, bal) && earnNonneg(raw) && wfEarned(raw)
//@ preserves [C10] never_more_batches_than_the_largest_total: cadInv(raw, ghostMaxTot)
//@ preserves [C11] no_event_in_the_past: futInv(raw, ctxHeight(ctx))
//@ preserves [C12,C16,C08,C04] open_batches_count_their_pending_requests: cntInv(raw)
//@ preserves [C11] queues_stay_well_formed: schedInv(raw)
//@ preserves [C16,C08,C02,C01,C04] pending_requests_stay_well_formed: actInv(raw)
//@ modifies raw, bal
//@ preserves wf: WF(raw)
//@ preserves [C03] deposits_in_custody: depInv(raw, bal)
//@ ensures [C05] only_the_binding_owner: err == NoErr ==> bindFound(old(raw), msg.ServiceName, msg.Provider) && addrEq(msg.Owner, bindOf(old(raw), msg.ServiceName, msg.Provider).Owner)
//@ ensures [C05] no_ordinary_account_is_debited: forall a Bytes, d Str :: {bal[a][d]} a != depositAcc ==> bal[a][d] >= old(bal)[a][d]
//@ ensures error_changes_nothing: err != NoErr ==> raw == old(raw) && bal == old(bal)
//@ ensures [C15] definitions_bindings_and_provider_owners_are_for_life: forLife(old(raw), raw)

//@ func handleMsgPauseRequestContext
//@ vars service.handleMsgPauseRequestContext: ctx=github.com/cosmos/cosmos-sdk/types.Context#0 k=github.com/irismod/service/keeper.Keeper#0 msg=*github.com/irismod/service/types.MsgPauseRequestContext#0 err=error#0 err=error#1
//@ preserves [C01,C02,C16,C11,C04] pending_requests_stay_well_formed: actInv(raw)
//@ props C05 C09 C20
//@ preserves [C16] both_pending_indexes_list_the_same_requests: idxInv(raw)
//@ preserves [C16] no_orphan_request_or_response_record: recInv(raw)
//@ preserves [C01,C02] escrow_exactly_backed: escInv(raw, bal) && earnNonneg(raw) && wfEarned(raw)
//@ preserves [C10] never_more_batches_than_the_largest_total: cadInv(raw, ghostMaxTot)
//@ preserves [C11] no_event_in_the_past: futInv(raw, ctxHeight(ctx))
//@ preserves [C12,C16,C08,C04] open_batches_count_their_pending_requests: cntInv(raw)
//@ preserves [C11] queues_stay_well_formed: schedInv(raw)
//@ modifies raw
//@ ensures [C05] only_the_consumer_and_never_a_module_context: err == NoErr ==> (let c := ctxOf(old(raw), msg.RequestContextId) in
//@      ctxFound(old(raw), msg.RequestContextId) && addrEq(msg.Consumer, c.Consumer) && len(c.ModuleName) == 0)
//@ ensures [C09] pause_only: err == NoErr ==> (let c := ctxOf(old(raw), msg.RequestContextId) in c.Repeated && c.State == RUNNING &&
//@      raw == old(raw)[KCtx(msg.RequestContextId) := enc_RequestContext(c[State := PAUSED])])
//@ ensures error_changes_nothing: err != NoErr ==> raw == old(raw)
//@ ensures [C15] definitions_bindings_and_provider_owners_are_for_life: forLife(old(raw), raw)

//@ func handleMsgStartRequestContext
//@ vars service.handleMsgStartRequestContext: ctx=github.com/cosmos/cosmos-sdk/types.Context#0 k=github.com/irismod/service/keeper.Keeper#0 msg=*github.com/irismod/service/types.MsgStartRequestContext#0 err=error#0 err=error#1
//@ preserves [C01,C02,C16,C11,C04] pending_requests_stay_well_formed: actInv(raw)
//@ props C05 C09 C20
//@ preserves [C16] both_pending_indexes_list_the_same_requests: idxInv(raw)
//@ preserves [C16] no_orphan_request_or_response_record: recInv(raw)
//@ preserves [C01,C02] escrow_exactly_backed: escInv(raw, bal) && earnNonneg(raw) && wfEarned(raw)
//@ preserves [C10] never_more_batches_than_the_largest_total: cadInv(raw, ghostMaxTot)
//@ preserves [C11] no_event_in_the_past: futInv(raw, ctxHeight(ctx))
//@ preserves [C12,C16,C08,C04] open_batches_count_their_pending_requests: cntInv(raw)
//@ preserves [C11] queues_stay_well_formed: schedInv(raw)
//@ modifies raw
//@ ensures [C05] only_the_consumer_and_never_a_module_context: err == NoErr ==> (let c := ctxOf(old(raw), msg.RequestContextId) in
//@      ctxFound(old(raw), msg.RequestContextId) && addrEq(msg.Consumer, c.Consumer) && len(c.ModuleName) == 0)
//@ ensures [C09] start_only_from_paused: err == NoErr ==> ctxOf(old(raw), msg.RequestContextId).State == PAUSED && ctxOf(raw, msg.RequestContextId) == ctxOf(old(raw), msg.RequestContextId)[State := RUNNING]
//@ ensures error_changes_nothing: err != NoErr ==> raw == old(raw)
//@ ensures [C15] definitions_bindings_and_provider_owners_are_for_life: forLife(old(raw), raw)

//@ func handleMsgKillRequestContext
//@ vars service.handleMsgKillRequestContext: ctx=github.com/cosmos/cosmos-sdk/types.Context#0 k=github.com/irismod/service/keeper.Keeper#0 msg=*github.com/irismod/service/types.MsgKillRequestContext#0 err=error#0 err=error#1
//@ preserves [C01,C02,C16,C11,C04] pending_requests_stay_well_formed: actInv(raw)
//@ props C05 C09 C20
//@ preserves [C16] both_pending_indexes_list_the_same_requests: idxInv(raw)
//@ preserves [C16] no_orphan_request_or_response_record: recInv(raw)
//@ preserves [C01,C02] escrow_exactly_backed: escInv(raw, bal) && earnNonneg(raw) && wfEarned(raw)
//@ preserves [C10] never_more_batches_than_the_largest_total: cadInv(raw, ghostMaxTot)
//@ preserves [C11] no_event_in_the_past: futInv(raw, ctxHeight(ctx))
//@ preserves [C12,C16,C08,C04] open_batches_count_their_pending_requests: cntInv(raw)
//@ preserves [C11] queues_stay_well_formed: schedInv(raw)
//@ modifies raw
//@ ensures [C05] only_the_consumer_and_never_a_module_context: err == NoErr ==> (let c := ctxOf(old(raw), msg.RequestContextId) in
//@      ctxFound(old(raw), msg.RequestContextId) && addrEq(msg.Consumer, c.Consumer) && len(c.ModuleName) == 0)
//@ ensures [C09] kill_only_repeated: err == NoErr ==> (let c := ctxOf(old(raw), msg.RequestContextId) in c.Repeated &&
//@      raw == old(raw)[KCtx(msg.RequestContextId) := enc_RequestContext(c[State := COMPLETED])])
//@ ensures error_changes_nothing: err != NoErr ==> raw == old(raw)
//@ ensures [C15] definitions_bindings_and_provider_owners_are_for_life: forLife(old(raw), raw)

//@ func handleMsgUpdateRequestContext
//@ vars service.handleMsgUpdateRequestContext: ctx=github.com/cosmos/cosmos-sdk/types.Context#0 k=github.com/irismod/service/keeper.Keeper#0 msg=*github.com/irismod/service/types.MsgUpdateRequestContext#0 err=error#0 err=error#1
//@ preserves [C01,C02,C16,C11,C04] pending_requests_stay_well_formed: actInv(raw)
//@ props C05 C09 C10 C20
//@ preserves [C16] both_pending_indexes_list_the_same_requests: idxInv(raw)
//@ preserves [C16] no_orphan_request_or_response_record: recInv(raw)
//@ preserves [C01,C02] escrow_exactly_backed: escInv(raw, bal) && earnNonneg(raw) && wfEarned(raw)
//@ requires [C10] never_more_batches_than_the_largest_total: cadInv(raw, ghostMaxTot)
//@ ensures [C10] never_more_batches_than_the_largest_total_kept: err == NoErr ==> cadInv(raw, maxNext(ghostMaxTot, raw))
//@ preserves [C11] no_event_in_the_past: futInv(raw, ctxHeight(ctx))
//@ preserves [C12,C16,C08,C04] open_batches_count_their_pending_requests: cntInv(raw)
//@ preserves [C11] queues_stay_well_formed: schedInv(raw)
//@ modifies raw
//@ requires a2_validated: msg.Timeout >= 0
//@ requires a12_position_index_fits: len(msg.Providers) <= 32767
//@ requires stored_in_range: ctxFound(raw, msg.RequestContextId) ==> rng_RequestContext(ctxOf(raw, msg.RequestContextId)) && ctxOf(raw, msg.RequestContextId).BatchCounter < 9223372036854775808
//@ ensures [C05] only_the_consumer_and_never_a_module_context: err == NoErr ==> (let c := ctxOf(old(raw), msg.RequestContextId) in
//@      ctxFound(old(raw), msg.RequestContextId) && addrEq(msg.Consumer, c.Consumer) && len(c.ModuleName) == 0)
//@ ensures [C09] never_a_completed_context_identity_kept: err == NoErr ==> (let c := ctxOf(old(raw), msg.RequestContextId) in let n := ctxOf(raw, msg.RequestContextId) in
//@      c.State != COMPLETED && sameIdentity(c, n) && n.State == c.State && n.BatchCounter == c.BatchCounter)
//@ ensures error_changes_nothing: err != NoErr ==> raw == old(raw)
//@ ensures [C15] definitions_bindings_and_provider_owners_are_for_life: forLife(old(raw), raw)

//@ func handleMsgCallService
//@ vars service.handleMsgCallService: ctx=github.com/cosmos/cosmos-sdk/types.Context#0 k=github.com/irismod/service/keeper.Keeper#0 msg=*github.com/irismod/service/types.MsgCallService#0 reqContextID=github.com/tendermint/tendermint/libs/bytes.HexBytes#0 err=error#0 moduleService=*github.com/irismod/service/types.ModuleService#0 found=bool#0 err=error#1
//@ props C05 C10 C11 C09 C20 C16 C12
//@ preserves [C16] both_pending_indexes_list_the_same_requests: idxInv(raw)
//@ preserves [C16] no_orphan_request_or_response_record: recInv(raw)
//@ preserves [C01,C02] escrow_exactly_backed: escInv(raw, bal) && earnNonneg(raw) && wfEarned(raw)
//@ modifies raw, bal, supply, cblog
//@ preserves wf: WF(raw)
//@ preserves [C03] deposits_in_custody: depInv(raw, bal)
//@ requires a2_validated: msg.Timeout > 0 && (msg.Repeated ==> (msg.RepeatedFrequency == 0 || msg.RepeatedFrequency >= msg.Timeout) && (msg.RepeatedTotal == -1 || msg.RepeatedTotal >= 1))
//@ requires a12_position_index_fits: len(msg.Providers) <= 32767
//@ requires a3_signer_ordinary: ordinary(msg.Consumer)
//@ requires a4_fresh_id: !ctxFound(raw, mkCtxID(ctxTxHash(ctx), ctxMsgIndex(ctx)))
//@ requires invariants: schedInv(raw) && actInv(raw) && cntInv(raw) && futInv(raw, ctxHeight(ctx)) && cadInv(raw, ghostMaxTot)
//@ ensures [C10,C11,C09] an_ordinary_call_stores_the_context_and_queues_its_first_batch_for_this_block: err == NoErr && !moduleSvcFound(msg.ServiceName) ==> (let id := mkCtxID(ctxTxHash(ctx), ctxMsgIndex(ctx)) in
//@      bal == old(bal) && supply == old(supply) && cblog == old(cblog) && ctxFound(raw, id) && ctxOf(raw, id).State == RUNNING && ctxOf(raw, id).BatchCounter == 0 && len(ctxOf(raw, id).ModuleName) == 0 &&
//@      raw == old(raw)[KCtx(id) := raw[KCtx(id)]][KNewQ(ctxHeight(ctx), id) := idVal(id)][KNewH(id) := hVal(ctxHeight(ctx))])
//@ ensures [C11,C16,C12,C10] an_ordinary_call_keeps_the_invariants: err == NoErr && !moduleSvcFound(msg.ServiceName) ==>
//@      schedInv(raw) && actInv(raw) && cntInv(raw) && futInv(raw, ctxHeight(ctx)) && cadInv(raw, maxNext(ghostMaxTot, raw))
//@ ensures [C10,C01] a_module_service_call_keeps_the_invariants: err == NoErr && moduleSvcFound(msg.ServiceName) ==>
//@      schedInv(raw) && actInv(raw) && cntInv(raw) && futInv(raw, ctxHeight(ctx)) && cadInv(raw, maxNext(ghostMaxTot, raw))
//@ ensures error_changes_no_record: err != NoErr && !moduleSvcFound(msg.ServiceName) ==> raw == old(raw) && bal == old(bal)
//@ ensures [C15] definitions_bindings_and_provider_owners_are_for_life: forLife(old(raw), raw)

//@ func handleMsgRespondService
//@ vars service.handleMsgRespondService: ctx=github.com/cosmos/cosmos-sdk/types.Context#0 k=github.com/irismod/service/keeper.Keeper#0 msg=*github.com/irismod/service/types.MsgRespondService#0 request=github.com/irismod/service/types.Request#0 err=error#0
//@ props C05 C08 C02 C20
//@ preserves [C16] both_pending_indexes_list_the_same_requests: idxInv(raw)
//@ preserves [C16] no_orphan_request_or_response_record: recInv(raw)
//@ preserves [C10] never_more_batches_than_the_largest_total: cadInv(raw, ghostMaxTot)
//@ preserves [C11] no_event_in_the_past: futInv(raw, ctxHeight(ctx))
//@ preserves [C12,C16,C08,C04] open_batches_count_their_pending_requests: cntInv(raw)
//@ preserves [C11] queues_stay_well_formed: schedInv(raw)
//@ preserves [C16,C08,C02,C01,C04] pending_requests_stay_well_formed: actInv(raw)
//@ modifies raw, bal, supply, cblog
//@ preserves [C01,C02] escrow_exactly_backed: escInv(raw, bal) && earnNonneg(raw) && wfEarned(raw)
//@ preserves wf: WF(raw)
//@ preserves [C03] deposits_in_custody: depInv(raw, bal)
//@ ensures [C05,C08] only_the_designated_provider_while_pending: err == NoErr ==> requestFound(old(raw), msg.RequestId) && addrEq(msg.Provider, reqProv(old(raw), msg.RequestId)) && isActive(old(raw), msg.RequestId)
//@ ensures [C08] rejected_response_changes_nothing: (!requestFound(old(raw), msg.RequestId) || !addrEq(msg.Provider, reqProv(old(raw), msg.RequestId)) || !isActive(old(raw), msg.RequestId))
//@      ==> err != NoErr && raw == old(raw) && bal == old(bal) && supply == old(supply)
//@ ensures [C15] definitions_bindings_and_provider_owners_are_for_life: forLife(old(raw), raw)

//@ func handleMsgWithdrawEarnedFees
//@ vars service.handleMsgWithdrawEarnedFees: ctx=github.com/cosmos/cosmos-sdk/types.Context#0 k=github.com/irismod/service/keeper.Keeper#0 msg=*github.com/irismod/service/types.MsgWithdrawEarnedFees#0 err=error#0
//@ props C05 C13 C20
//@ preserves [C16] both_pending_indexes_list_the_same_requests: idxInv(raw)
//@ preserves [C16] no_orphan_request_or_response_record: recInv(raw)
//@ preserves [C01,C02] escrow_exactly_backed: escInv(raw, bal) && earnNonneg(raw) && wfEarned(raw)
//@ preserves [C10] never_more_batches_than_the_largest_total: cadInv(raw, ghostMaxTot)
//@ preserves [C11] no_event_in_the_past: futInv(raw, ctxHeight(ctx))
//@ preserves [C12,C16,C08,C04] open_batches_count_their_pending_requests: cntInv(raw)
//@ preserves [C11] queues_stay_well_formed: schedInv(raw)
//@ preserves [C16,C08,C02,C01,C04] pending_requests_stay_well_formed: actInv(raw)
//@ modifies raw, bal
//@ requires a3_signer_address: len(msg.Owner) == 20
//@ requires owner_total_covers_provider: forall d Str :: pfxSum(raw, POwnerEarned(msg.Owner), d) >= pfxSum(raw, PEarned(msg.Provider), d)
//@ requires recorded_earnings_nonneg: forall d Str :: pfxSum(raw, PEarned(msg.Provider), d) >= 0 && pfxSum(raw, POwnerEarned(msg.Owner), d) >= 0
//@ ensures [C05] only_the_provider_owner: err == NoErr && len(msg.Provider) > 0 ==> addrEq(msg.Owner, ownerOf(old(raw), msg.Provider))
//@ ensures [C05] only_the_escrow_is_debited: err == NoErr ==> (forall a Bytes, d Str :: {bal[a][d]} a != requestAcc ==> bal[a][d] >= old(bal)[a][d])
//@ requires [C01] a16_withdrawal_address_is_an_ordinary_account: ordinary(withdrawAddrOf(raw, msg.Owner))
//@ requires [C13] owner_total_is_the_sum_of_its_providers_earnings: len(msg.Provider) == 0 ==> ownerTotalOK(raw, msg.Owner)
//@ ensures [C15] definitions_bindings_and_provider_owners_are_for_life: forLife(old(raw), raw)

// ---------------------------------------------------------------- zero-height export preparation (C19)
//@ func PrepForZeroHeightGenesis
//@ vars service.PrepForZeroHeightGenesis: ctx=github.com/cosmos/cosmos-sdk/types.Context#0 k=github.com/irismod/service/keeper.Keeper#0 err=error#0 err=error#1 err=error#2
//@ props C19
//@ modifies raw, bal
//@ maypanic
//@ requires records_match_their_keys: wfEarned(raw)
//@ ensures [C19] every_pending_fee_and_every_earning_returned: bal == refundEarnedIt(refundIt(old(bal), old(raw), PAllAct, itCount(old(raw), PAllAct)), old(raw), PAllEarned, itCount(old(raw), PAllEarned))
//@ ensures [C19] every_context_paused_with_no_batch_in_flight: forall k Key :: {raw[k]} raw[k] == ((is_KCtx(k) && old(raw)[k] != bnil)
//@      ? enc_RequestContext(dec_RequestContext(old(raw)[k])[State := PAUSED][BatchState := BATCHCOMPLETED][BatchRequestCount := 0][BatchResponseCount := 0]) : old(raw)[k])

// ---------------------------------------------------------------- EndBlocker: the two queue scans of one block
//@ func EndBlocker
//@ vars service.EndBlocker: ctx=github.com/cosmos/cosmos-sdk/types.Context#0 k=github.com/irismod/service/keeper.Keeper#0 expiredRequestHandler=func#0 expiredRequestBatchHandler=func#1 providerRequests=map[string][]string#0 newRequestBatchHandler=func#2 provider=string#0 requests=[]string#0 requestsJSON=[]byte#0 str=[]string#1
//@ vars (keeper.Keeper).IterateExpiredRequestBatch: k=github.com/irismod/service/keeper.Keeper#0 ctx=github.com/cosmos/cosmos-sdk/types.Context#0 expirationHeight=int64#0 op=func#0 requestContextID=github.com/tendermint/tendermint/libs/bytes.HexBytes#0 requestContext=github.com/irismod/service/types.RequestContext#0 store=github.com/cosmos/cosmos-sdk/types.KVStore#0 iterator=github.com/cosmos/cosmos-sdk/types.Iterator#0 requestContextID=github.com/gogo/protobuf/types.BytesValue#0 requestContext=github.com/irismod/service/types.RequestContext#1
//@ vars (keeper.Keeper).IterateNewRequestBatch: k=github.com/irismod/service/keeper.Keeper#0 ctx=github.com/cosmos/cosmos-sdk/types.Context#0 requestBatchHeight=int64#0 op=func#0 requestContextID=github.com/tendermint/tendermint/libs/bytes.HexBytes#0 requestContext=github.com/irismod/service/types.RequestContext#0 store=github.com/cosmos/cosmos-sdk/types.KVStore#0 iterator=github.com/cosmos/cosmos-sdk/types.Iterator#0 requestContextID=github.com/gogo/protobuf/types.BytesValue#0 requestContext=github.com/irismod/service/types.RequestContext#1
//@ props C11 C03 C16 C20 C10
//@ preserves [C16] both_pending_indexes_list_the_same_requests: idxInv(raw)
//@ preserves [C16] no_orphan_request_or_response_record: recInv(raw)
//@ preserves [C10] never_more_batches_than_the_largest_total: cadInv(raw, ghostMaxTot)
//@ preserves [C12,C16,C08,C04] open_batches_count_their_pending_requests: cntInv(raw)
//@ modifies raw, bal, supply, cblog
//@ preserves wf: WF(raw)
//@ preserves [C03] deposits_in_custody: depInv(raw, bal)
//@ preserves [C16,C08,C02,C01] pending_requests_are_well_formed: actInv(raw)
//@ preserves [C11] queues_are_well_formed: schedInv(raw)
//@ requires [C11] no_event_in_the_past: futInv(raw, ctxHeight(ctx))
//@ ensures [C11,C10] every_event_due_in_this_block_is_processed_and_none_lies_in_the_past: futInv(raw, ctxHeight(ctx) + 1)
//@ ensures [C05] only_consumers_whose_running_context_issued_a_batch_are_debited: forall a Bytes, d Str :: {bal[a][d]} ordinary(a) && bal[a][d] < old(bal)[a][d] ==>
//@      (exists id Bytes :: issuedNow(raw, id, a))
//@ ensures [C11,C10] every_expiry_due_in_this_block_is_processed: forall id Bytes :: {raw[KExpQ(ctxHeight(ctx), id)]} raw[KExpQ(ctxHeight(ctx), id)] == bnil
//@ loop IterateExpiredRequestBatch.0 invariant pos_in_range: 0 <= iterator_pos && iterator_pos <= itCount(iterator_snap, iterator_pfx)
//@ loop IterateExpiredRequestBatch.0 invariant snapshot: iterator_snap == old(raw) && iterator_pfx == PExpQ(ctxHeight(ctx)) && expirationHeight == ctxHeight(ctx)
//@ loop IterateExpiredRequestBatch.0 invariant wf: WF(raw) && depInv(raw, bal) && actInv(raw)
//@ loop IterateExpiredRequestBatch.0 invariant expiry_entries: forall k Key :: {raw[k]} is_KExpQ(k) ==> raw[k] ==
//@      ((inPfx(k, iterator_pfx) && iterator_snap[k] != bnil && itIdx(iterator_snap, iterator_pfx, k) < iterator_pos) ? bnil : iterator_snap[k])
//@ loop 0 invariant events_only: true
//@ loop IterateNewRequestBatch.0 invariant pos_in_range: 0 <= iterator_pos && iterator_pos <= itCount(iterator_snap, iterator_pfx)
//@ loop IterateNewRequestBatch.0 invariant snapshot: iterator_snap == call_raw && iterator_pfx == PNewQ(ctxHeight(ctx)) && requestBatchHeight == ctxHeight(ctx)
//@ loop IterateNewRequestBatch.0 invariant wf: WF(raw) && depInv(raw, bal) && actInv(raw) && schedInv(raw) && cntInv(raw) && recInv(raw) && idxInv(raw)
//@ loop IterateNewRequestBatch.0 invariant [C11] no_event_in_the_past: futInv(raw, ctxHeight(ctx)) && cadInv(raw, ghostMaxTot)
//@ loop IterateNewRequestBatch.0 invariant [C01] escrow_exactly_backed: escInv(raw, bal) && earnNonneg(raw) && pricesInBase(raw)
//@ loop IterateNewRequestBatch.0 invariant [C11] visited_entries_consumed: forall id Bytes :: {raw[KNewQ(ctxHeight(ctx), id)]}
//@      (iterator_snap[KNewQ(ctxHeight(ctx), id)] == bnil || itIdx(iterator_snap, iterator_pfx, KNewQ(ctxHeight(ctx), id)) < iterator_pos) ==> raw[KNewQ(ctxHeight(ctx), id)] == bnil
//@ loop IterateNewRequestBatch.0 invariant [C05] debited_so_far_issued_a_batch: forall a Bytes, d Str :: {bal[a][d]} ordinary(a) && bal[a][d] < old(bal)[a][d] ==>
//@      (exists id Bytes :: issuedNow(raw, id, a))
//@ loop IterateNewRequestBatch.0 invariant [C15] for_life: forLife(old(raw), raw)
//@ loop IterateNewRequestBatch.0 invariant unvisited_entries_untouched: forall id Bytes :: {raw[KNewQ(ctxHeight(ctx), id)]}
//@      (iterator_snap[KNewQ(ctxHeight(ctx), id)] != bnil && itIdx(iterator_snap, iterator_pfx, KNewQ(ctxHeight(ctx), id)) >= iterator_pos) ==>
//@      raw[KNewQ(ctxHeight(ctx), id)] == iterator_snap[KNewQ(ctxHeight(ctx), id)]
//@ loop IterateNewRequestBatch.0 invariant [C11] expiry_phase_done: forall id Bytes :: {raw[KExpQ(ctxHeight(ctx), id)]} raw[KExpQ(ctxHeight(ctx), id)] == bnil
//@ loop IterateNewRequestBatch.0 invariant new_entries_of_snapshot_ok: forall id Bytes :: {iterator_snap[KNewQ(ctxHeight(ctx), id)]} newOK(iterator_snap, ctxHeight(ctx), id)
//@ loop IterateNewRequestBatch.0 invariant unvisited_contexts_untouched: forall id Bytes :: {raw[KCtx(id)]}
//@      (iterator_snap[KNewQ(ctxHeight(ctx), id)] != bnil && itIdx(iterator_snap, iterator_pfx, KNewQ(ctxHeight(ctx), id)) >= iterator_pos) ==>
//@      raw[KCtx(id)] == iterator_snap[KCtx(id)]
//@ loop IterateExpiredRequestBatch.0 invariant [C05] no_ordinary_account_debited_so_far: forall a Bytes, d Str :: {bal[a][d]} ordinary(a) ==> bal[a][d] >= old(bal)[a][d]
//@ loop IterateExpiredRequestBatch.0 invariant [C15] for_life: forLife(old(raw), raw)
//@ loop IterateExpiredRequestBatch.0 invariant queues_ok: idxInv(raw) && recInv(raw) && schedInv(raw) && cntInv(raw) && futInv(raw, ctxHeight(ctx)) && cadInv(raw, ghostMaxTot)
//@ loop IterateExpiredRequestBatch.0 invariant [C01] escrow_exactly_backed: escInv(raw, bal) && earnNonneg(raw) && pricesInBase(raw)
//@ loop IterateExpiredRequestBatch.0 invariant unvisited_contexts_untouched: forall id Bytes :: {raw[KCtx(id)]} {raw[KExpH(id)]} {raw[KNewH(id)]}
//@      (iterator_snap[KExpQ(ctxHeight(ctx), id)] != bnil && itIdx(iterator_snap, iterator_pfx, KExpQ(ctxHeight(ctx), id)) >= iterator_pos) ==>
//@      raw[KCtx(id)] == iterator_snap[KCtx(id)] && raw[KExpH(id)] == iterator_snap[KExpH(id)] && raw[KNewH(id)] == iterator_snap[KNewH(id)]
//@ preserves [C01] a15_prices_in_base_denom: pricesInBase(raw)
//@ preserves [C01,C02] escrow_exactly_backed: escInv(raw, bal) && earnNonneg(raw)
//@ ensures [C15] definitions_bindings_and_provider_owners_are_for_life: forLife(old(raw), raw)

// ---------------------------------------------------------------- genesis export / import (C19, second half)
//@ func ExportGenesis
//@ vars service.ExportGenesis: ctx=github.com/cosmos/cosmos-sdk/types.Context#0 k=github.com/irismod/service/keeper.Keeper#0 definitions=[]github.com/irismod/service/types.ServiceDefinition#0 bindings=[]github.com/irismod/service/types.ServiceBinding#0 withdrawAddresses=map[string][]byte#0 requestContexts=map[string]*github.com/irismod/service/types.RequestContext#0
//@ vars (keeper.Keeper).IterateRequestContexts: k=github.com/irismod/service/keeper.Keeper#0 ctx=github.com/cosmos/cosmos-sdk/types.Context#0 op=func#0 requestContextID=github.com/tendermint/tendermint/libs/bytes.HexBytes#0 requestContext=github.com/irismod/service/types.RequestContext#0 stop=bool#0 store=github.com/cosmos/cosmos-sdk/types.KVStore#0 iterator=github.com/cosmos/cosmos-sdk/types.Iterator#0 requestContextID=[]byte#0 requestContext=github.com/irismod/service/types.RequestContext#1 stop=bool#1
//@ vars (keeper.Keeper).IterateServiceBindings: k=github.com/irismod/service/keeper.Keeper#0 ctx=github.com/cosmos/cosmos-sdk/types.Context#0 op=func#0 binding=github.com/irismod/service/types.ServiceBinding#0 stop=bool#0 store=github.com/cosmos/cosmos-sdk/types.KVStore#0 iterator=github.com/cosmos/cosmos-sdk/types.Iterator#0 binding=github.com/irismod/service/types.ServiceBinding#1 stop=bool#1
//@ vars (keeper.Keeper).IterateServiceDefinitions: k=github.com/irismod/service/keeper.Keeper#0 ctx=github.com/cosmos/cosmos-sdk/types.Context#0 op=func#0 definition=github.com/irismod/service/types.ServiceDefinition#0 stop=bool#0 store=github.com/cosmos/cosmos-sdk/types.KVStore#0 iterator=github.com/cosmos/cosmos-sdk/types.Iterator#0 definition=github.com/irismod/service/types.ServiceDefinition#1 stop=bool#1
//@ vars (keeper.Keeper).IterateWithdrawAddresses: k=github.com/irismod/service/keeper.Keeper#0 ctx=github.com/cosmos/cosmos-sdk/types.Context#0 op=func#0 owner=github.com/cosmos/cosmos-sdk/types.AccAddress#0 withdrawAddress=github.com/cosmos/cosmos-sdk/types.AccAddress#1 stop=bool#0 store=github.com/cosmos/cosmos-sdk/types.KVStore#0 iterator=github.com/cosmos/cosmos-sdk/types.Iterator#0 ownerAddress=github.com/cosmos/cosmos-sdk/types.AccAddress#2 withdrawAddress=github.com/cosmos/cosmos-sdk/types.AccAddress#3 stop=bool#1
//@ props C19 C18 C05 C09 C15
//@ preserves [C19] wf: WF(raw)
//@ requires [C19] a3_withdraw_addresses_are_recorded_for_present_owners: forall o Bytes :: {raw[KWAddr(o)]} raw[KWAddr(o)] != bnil ==> len(o) > 0
//@ loop IterateServiceDefinitions.0 invariant pos_in_range: 0 <= iterator_pos && iterator_pos <= itCount(iterator_snap, iterator_pfx)
//@ loop IterateServiceDefinitions.0 invariant snapshot: iterator_snap == raw && iterator_pfx == PAllDef
//@ loop IterateServiceDefinitions.0 invariant listed_so_far: outer_definitions == defsIt(iterator_snap, iterator_pfx, iterator_pos)
//@ loop IterateServiceDefinitions.0 invariant maps_still_empty: (forall s Str :: {mapHas_Map_Str_Bytes(outer_withdrawAddresses, s)} !mapHas_Map_Str_Bytes(outer_withdrawAddresses, s)) && (forall s Str :: {mapHas_Map_Str_RequestContext(outer_requestContexts, s)} !mapHas_Map_Str_RequestContext(outer_requestContexts, s))
//@ loop IterateServiceBindings.0 invariant maps_still_empty: (forall s Str :: {mapHas_Map_Str_Bytes(outer_withdrawAddresses, s)} !mapHas_Map_Str_Bytes(outer_withdrawAddresses, s)) && (forall s Str :: {mapHas_Map_Str_RequestContext(outer_requestContexts, s)} !mapHas_Map_Str_RequestContext(outer_requestContexts, s))
//@ loop IterateServiceBindings.0 invariant pos_in_range: 0 <= iterator_pos && iterator_pos <= itCount(iterator_snap, iterator_pfx)
//@ loop IterateServiceBindings.0 invariant snapshot: iterator_snap == raw && iterator_pfx == PAllBind
//@ loop IterateServiceBindings.0 invariant listed_so_far: outer_bindings == bindsIt(iterator_snap, iterator_pfx, iterator_pos) && outer_definitions == defsIt(raw, PAllDef, itCount(raw, PAllDef))
//@ loop IterateWithdrawAddresses.0 invariant pos_in_range: 0 <= iterator_pos && iterator_pos <= itCount(iterator_snap, iterator_pfx)
//@ loop IterateWithdrawAddresses.0 invariant snapshot: iterator_snap == raw && iterator_pfx == PAllWAddr
//@ loop IterateWithdrawAddresses.0 invariant lists_kept: outer_bindings == bindsIt(raw, PAllBind, itCount(raw, PAllBind)) && outer_definitions == defsIt(raw, PAllDef, itCount(raw, PAllDef))
//@ loop IterateWithdrawAddresses.0 invariant visited_owners_exported: forall o Bytes :: {raw[KWAddr(o)]} raw[KWAddr(o)] != bnil && itIdx(iterator_snap, iterator_pfx, KWAddr(o)) < iterator_pos ==>
//@      mapHas_Map_Str_Bytes(outer_withdrawAddresses, bech32(o)) && mapGet_Map_Str_Bytes(outer_withdrawAddresses, bech32(o)) == raw[KWAddr(o)]
//@ loop IterateWithdrawAddresses.0 invariant context_map_still_empty: forall s Str :: {mapHas_Map_Str_RequestContext(outer_requestContexts, s)} !mapHas_Map_Str_RequestContext(outer_requestContexts, s)
//@ loop IterateWithdrawAddresses.0 invariant only_stored_owners_exported: forall s Str :: {mapHas_Map_Str_Bytes(outer_withdrawAddresses, s)} mapHas_Map_Str_Bytes(outer_withdrawAddresses, s) ==>
//@      s == bech32(bech32Decode(s)) && raw[KWAddr(bech32Decode(s))] != bnil
//@ loop IterateRequestContexts.0 invariant only_stored_owners_exported_kept: forall s Str :: {mapHas_Map_Str_Bytes(outer_withdrawAddresses, s)} mapHas_Map_Str_Bytes(outer_withdrawAddresses, s) ==>
//@      s == bech32(bech32Decode(s)) && raw[KWAddr(bech32Decode(s))] != bnil
//@ loop IterateRequestContexts.0 invariant only_stored_contexts_exported: forall s Str :: {mapHas_Map_Str_RequestContext(outer_requestContexts, s)} mapHas_Map_Str_RequestContext(outer_requestContexts, s) ==>
//@      s == hexstr(hexDecode(s)) && raw[KCtx(hexDecode(s))] != bnil
//@ loop IterateRequestContexts.0 invariant pos_in_range: 0 <= iterator_pos && iterator_pos <= itCount(iterator_snap, iterator_pfx)
//@ loop IterateRequestContexts.0 invariant snapshot: iterator_snap == raw && iterator_pfx == PAllCtx
//@ loop IterateRequestContexts.0 invariant lists_kept: outer_bindings == bindsIt(raw, PAllBind, itCount(raw, PAllBind)) && outer_definitions == defsIt(raw, PAllDef, itCount(raw, PAllDef))
//@ loop IterateRequestContexts.0 invariant withdraw_addresses_kept: forall o Bytes :: {raw[KWAddr(o)]} raw[KWAddr(o)] != bnil ==>
//@      mapHas_Map_Str_Bytes(outer_withdrawAddresses, bech32(o)) && mapGet_Map_Str_Bytes(outer_withdrawAddresses, bech32(o)) == raw[KWAddr(o)]
//@ loop IterateRequestContexts.0 invariant visited_contexts_exported: forall id Bytes :: {raw[KCtx(id)]} raw[KCtx(id)] != bnil && itIdx(iterator_snap, iterator_pfx, KCtx(id)) < iterator_pos ==>
//@      mapHas_Map_Str_RequestContext(outer_requestContexts, hexstr(id)) && mapGet_Map_Str_RequestContext(outer_requestContexts, hexstr(id)) == ctxOf(raw, id)
//@ ensures [C19] exports_the_stored_parameters: result.Params == params
//@ ensures [C19] exports_every_definition_in_key_order: result.Definitions == defsIt(raw, PAllDef, itCount(raw, PAllDef))
//@ ensures [C19] exports_every_binding_in_key_order: result.Bindings == bindsIt(raw, PAllBind, itCount(raw, PAllBind))
//@ ensures [C19] exports_every_withdraw_address_under_the_bech32_form_of_its_owner: forall o Bytes :: {raw[KWAddr(o)]} raw[KWAddr(o)] != bnil ==>
//@      mapHas_Map_Str_Bytes(result.WithdrawAddresses, bech32(o)) && mapGet_Map_Str_Bytes(result.WithdrawAddresses, bech32(o)) == raw[KWAddr(o)]
//@ ensures [C19] exports_every_context_under_the_hex_form_of_its_id: forall id Bytes :: {raw[KCtx(id)]} raw[KCtx(id)] != bnil ==>
//@      mapHas_Map_Str_RequestContext(result.RequestContexts, hexstr(id)) && mapGet_Map_Str_RequestContext(result.RequestContexts, hexstr(id)) == ctxOf(raw, id)

//@ ensures [C19,C15] exported_bindings_satisfy_the_record_rules_genesis_validation_checks: forall j Int :: {result.Bindings[j]} 0 <= j && j < len(result.Bindings) ==> bindRecOK(result.Bindings[j])
//@ ensures [C19] exports_no_other_withdraw_address: forall s Str :: {mapHas_Map_Str_Bytes(result.WithdrawAddresses, s)} mapHas_Map_Str_Bytes(result.WithdrawAddresses, s) ==>
//@      s == bech32(bech32Decode(s)) && raw[KWAddr(bech32Decode(s))] != bnil
//@ ensures [C19] exports_no_other_context: forall s Str :: {mapHas_Map_Str_RequestContext(result.RequestContexts, s)} mapHas_Map_Str_RequestContext(result.RequestContexts, s) ==>
//@      s == hexstr(hexDecode(s)) && raw[KCtx(hexDecode(s))] != bnil
//@ func InitGenesis
//@ vars service.InitGenesis: ctx=github.com/cosmos/cosmos-sdk/types.Context#0 k=github.com/irismod/service/keeper.Keeper#0 data=github.com/irismod/service/types.GenesisState#0 err=error#0 definition=github.com/irismod/service/types.ServiceDefinition#0 binding=github.com/irismod/service/types.ServiceBinding#0 err=error#1 ownerAddressStr=string#0 withdrawAddress=[]byte#0 ownerAddress=github.com/cosmos/cosmos-sdk/types.AccAddress#0 reqContextIDStr=string#1 requestContext=*github.com/irismod/service/types.RequestContext#0 requestContextID=[]byte#1
//@ props C19 C05 C09 C15
//@ modifies raw
//@ maypanic
//@ requires well_typed_context_records: forall s Str :: {mapGet_Map_Str_RequestContext(data.RequestContexts, s)} rng_RequestContext(mapGet_Map_Str_RequestContext(data.RequestContexts, s))
//@ requires as_exported_no_nil_withdraw_address: forall s Str :: {mapHas_Map_Str_Bytes(data.WithdrawAddresses, s)} mapHas_Map_Str_Bytes(data.WithdrawAddresses, s) ==> mapGet_Map_Str_Bytes(data.WithdrawAddresses, s) != bnil
//@ loop 0 invariant seen: 0 <= iter && iter <= len(data.Definitions)
//@ loop 0 invariant definitions_written_so_far: raw == wrDefs(old(raw), data.Definitions, iter)
//@ loop 1 invariant seen: 0 <= iter && iter <= len(data.Bindings)
//@ loop 1 invariant bindings_written_so_far: raw == wrBinds(wrDefs(old(raw), data.Definitions, len(data.Definitions)), data.Bindings, iter)
//@ loop 2 invariant only_withdraw_addresses_written: forall k Key :: {raw[k]} !is_KWAddr(k) ==> raw[k] == wrBinds(wrDefs(old(raw), data.Definitions, len(data.Definitions)), data.Bindings, len(data.Bindings))[k]
//@ loop 2 invariant visited_written: forall s Str :: {range_visited[s]} range_visited[s] && (forall s2 Str :: {mapHas_Map_Str_Bytes(data.WithdrawAddresses, s2)} mapHas_Map_Str_Bytes(data.WithdrawAddresses, s2) && s2 != s ==> bech32Decode(s2) != bech32Decode(s))
//@      ==> raw[KWAddr(bech32Decode(s))] == mapGet_Map_Str_Bytes(data.WithdrawAddresses, s)
//@ loop 2 invariant others_untouched: forall a Bytes :: {raw[KWAddr(a)]} (forall s Str :: {mapHas_Map_Str_Bytes(data.WithdrawAddresses, s)} mapHas_Map_Str_Bytes(data.WithdrawAddresses, s) ==> bech32Decode(s) != a)
//@      ==> raw[KWAddr(a)] == old(raw)[KWAddr(a)]
//@ loop 3 invariant only_contexts_written: forall k Key :: {raw[k]} !is_KCtx(k) ==> raw[k] == entry_raw[k]
//@ loop 3 invariant visited_written: forall s Str :: {range_visited[s]} range_visited[s] && (forall s2 Str :: {mapHas_Map_Str_RequestContext(data.RequestContexts, s2)} mapHas_Map_Str_RequestContext(data.RequestContexts, s2) && s2 != s ==> hexDecode(s2) != hexDecode(s))
//@      ==> raw[KCtx(hexDecode(s))] == enc_RequestContext(mapGet_Map_Str_RequestContext(data.RequestContexts, s))
//@ loop 3 invariant others_untouched: forall id Bytes :: {raw[KCtx(id)]} (forall s Str :: {mapHas_Map_Str_RequestContext(data.RequestContexts, s)} mapHas_Map_Str_RequestContext(data.RequestContexts, s) ==> hexDecode(s) != id)
//@      ==> raw[KCtx(id)] == old(raw)[KCtx(id)]
//@ loop 3 invariant written_contexts_come_from_the_file: forall id Bytes :: {raw[KCtx(id)]} raw[KCtx(id)] == old(raw)[KCtx(id)] ||
//@      (exists s Str :: mapHas_Map_Str_RequestContext(data.RequestContexts, s) && raw[KCtx(id)] == enc_RequestContext(mapGet_Map_Str_RequestContext(data.RequestContexts, s)))
//@ ensures [C19] withdraw_addresses_imported: forall s Str :: {mapHas_Map_Str_Bytes(data.WithdrawAddresses, s)} mapHas_Map_Str_Bytes(data.WithdrawAddresses, s) &&
//@      (forall s2 Str :: {mapHas_Map_Str_Bytes(data.WithdrawAddresses, s2)} mapHas_Map_Str_Bytes(data.WithdrawAddresses, s2) && s2 != s ==> bech32Decode(s2) != bech32Decode(s))
//@      ==> raw[KWAddr(bech32Decode(s))] == mapGet_Map_Str_Bytes(data.WithdrawAddresses, s)
//@ ensures [C19] contexts_imported: forall s Str :: {mapHas_Map_Str_RequestContext(data.RequestContexts, s)} mapHas_Map_Str_RequestContext(data.RequestContexts, s) &&
//@      (forall s2 Str :: {mapHas_Map_Str_RequestContext(data.RequestContexts, s2)} mapHas_Map_Str_RequestContext(data.RequestContexts, s2) && s2 != s ==> hexDecode(s2) != hexDecode(s))
//@      ==> raw[KCtx(hexDecode(s))] == enc_RequestContext(mapGet_Map_Str_RequestContext(data.RequestContexts, s))
//@ ensures [C19] nothing_else_written: (forall a Bytes :: {raw[KWAddr(a)]} (forall s Str :: {mapHas_Map_Str_Bytes(data.WithdrawAddresses, s)} mapHas_Map_Str_Bytes(data.WithdrawAddresses, s) ==> bech32Decode(s) != a) ==> raw[KWAddr(a)] == old(raw)[KWAddr(a)]) &&
//@      (forall id Bytes :: {raw[KCtx(id)]} (forall s Str :: {mapHas_Map_Str_RequestContext(data.RequestContexts, s)} mapHas_Map_Str_RequestContext(data.RequestContexts, s) ==> hexDecode(s) != id) ==> raw[KCtx(id)] == old(raw)[KCtx(id)])
//@ ensures [C19] definitions_bindings_price_terms_and_indexes_imported: forall k Key :: {raw[k]} !is_KWAddr(k) && !is_KCtx(k) ==>
//@      raw[k] == wrBinds(wrDefs(old(raw), data.Definitions, len(data.Definitions)), data.Bindings, len(data.Bindings))[k]
//@ ensures [C19,C16,C11,C01] no_runtime_records_when_started_on_an_empty_store: emptyStore(old(raw)) ==> noRuntimeRecords(raw)
//@ ensures [C19,C15] every_imported_definition_is_stored_under_its_own_name: emptyStore(old(raw)) ==> defInv(raw)
//@ ensures [C19,C15] every_imported_binding_satisfies_the_record_rules_under_its_own_key: emptyStore(old(raw)) ==> (forall s Str, p Bytes :: {raw[KBind(s, p)]} bindFound(raw, s, p) ==>
//@      bindRecOK(bindOf(raw, s, p)) && bindOf(raw, s, p).ServiceName == s && bindOf(raw, s, p).Provider == p)
//@ ensures [C19,C09,C11] every_imported_context_is_paused_with_its_batch_completed: emptyStore(old(raw)) ==> (forall id Bytes :: {raw[KCtx(id)]} ctxFound(raw, id) ==>
//@      ctxOf(raw, id).State == PAUSED && ctxOf(raw, id).BatchState == BATCHCOMPLETED)
