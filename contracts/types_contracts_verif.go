//go:build verif
// +build verif

// Contracts (comment-only; no code). Checked by /verif/engine (govc) against the go/ssa of this package.
package types

//@ func GetDiscountByTime
//@ props C07
//@ theory keys pricing
//@ loop 0 invariant seen: 0 <= iter && iter <= len(pricing.PromotionsByTime)
//@ loop 0 invariant none_before: forall j Int :: 0 <= j && j < iter ==> !inWindow(pricing.PromotionsByTime[j], time)
//@ ensures result_is_dT: result == discountByTime(pricing, time)

//@ func GetDiscountByVolume
//@ props C07
//@ theory keys pricing
//@ loop 0 invariant seen: 0 <= iter && iter <= len(pricing.PromotionsByVolume)
//@ loop 0 invariant all_le: forall j Int :: 0 <= j && j < iter ==> volAt(pricing, j) <= volume
//@ loop 0 invariant not_past_end: len(pricing.PromotionsByVolume) == 0 || iter < len(pricing.PromotionsByVolume)
//@ ensures result_is_dV: result == discountByVolume(pricing, volume)

//@ func ValidatePricing
//@ props C07 C15
//@ theory keys pricing
//@ loop 0 invariant seen: 0 <= iter && iter <= len(pricing.PromotionsByTime)
//@ loop 0 invariant ok_so_far: forall j Int :: 0 <= j && j < iter ==> windowOK(pricing, j)
//@ loop 1 invariant seen: 0 <= iter && iter <= len(pricing.PromotionsByVolume)
//@ loop 1 invariant windows: forall j Int :: 0 <= j && j < len(pricing.PromotionsByTime) ==> windowOK(pricing, j)
//@ loop 1 invariant ok_so_far: forall j Int :: 0 <= j && j < iter ==> volumeOK(pricing, j)
//@ ensures nil_iff_valid: (result == NoErr) <==> validPricing(pricing)

// ---------------------------------------------------------------- store keys (layer K): every builder returns exactly kbytes(<Key>) / pbytes(<Prefix>)
//@ func GetServiceDefinitionKey
//@ props C18 C15
//@ theory coins keys bytes
//@ ensures exact: result == kbytes(KDef(serviceName))

//@ func GetServiceBindingKey
//@ props C18 C15
//@ theory coins keys bytes
//@ ensures exact: result == kbytes(KBind(serviceName, provider))

//@ func GetOwnerServiceBindingKey
//@ props C18 C15
//@ theory coins keys bytes
//@ ensures exact: result == kbytes(KOwnerBind(owner, serviceName, provider))

//@ func GetOwnerKey
//@ props C18 C15
//@ theory coins keys bytes
//@ ensures exact: result == kbytes(KOwner(provider))

//@ func GetOwnerProviderKey
//@ props C18 C15
//@ theory coins keys bytes
//@ ensures exact: result == kbytes(KOwnerProv(owner, provider))

//@ func GetPricingKey
//@ props C18 C15
//@ theory coins keys bytes
//@ ensures exact: result == kbytes(KPricing(serviceName, provider))

//@ func GetWithdrawAddrKey
//@ props C18 C13
//@ theory coins keys bytes
//@ ensures exact: result == kbytes(KWAddr(provider))

//@ func GetBindingsSubspace
//@ props C18 C15
//@ theory coins keys bytes
//@ ensures exact: result == pbytes(PBindSvc(serviceName))

//@ func GetOwnerBindingsSubspace
//@ props C18 C15
//@ theory coins keys bytes
//@ ensures exact: result == pbytes(POwnerBind(owner, serviceName))

//@ func GetOwnerProvidersSubspace
//@ props C18 C13
//@ theory coins keys bytes
//@ ensures exact: result == pbytes(POwnerProv(owner))

//@ func GetRequestContextKey
//@ props C18
//@ theory coins keys bytes
//@ ensures exact: result == kbytes(KCtx(requestContextID))

//@ func GetExpiredRequestBatchKey
//@ props C18 C11
//@ theory coins keys bytes
//@ ensures exact: result == kbytes(KExpQ(batchExpirationHeight, requestContextID))

//@ func GetNewRequestBatchKey
//@ props C18 C11
//@ theory coins keys bytes
//@ ensures exact: result == kbytes(KNewQ(requestBatchHeight, requestContextID))

//@ func GetExpiredRequestBatchSubspace
//@ props C18 C11
//@ theory coins keys bytes
//@ ensures exact: result == pbytes(PExpQ(batchExpirationHeight))

//@ func GetNewRequestBatchSubspace
//@ props C18 C11
//@ theory coins keys bytes
//@ ensures exact: result == pbytes(PNewQ(requestBatchHeight))

//@ func GetExpiredRequestBatchHeightKey
//@ props C18 C11
//@ theory coins keys bytes
//@ ensures exact: result == kbytes(KExpH(requestContextID))

//@ func GetNewRequestBatchHeightKey
//@ props C18 C11
//@ theory coins keys bytes
//@ ensures exact: result == kbytes(KNewH(requestContextID))

//@ func GetRequestKey
//@ props C18
//@ theory coins keys bytes
//@ ensures exact: result == kbytes(KReq(requestID))

//@ func GetRequestSubspaceByReqCtx
//@ props C18 C16
//@ theory coins keys bytes
//@ ensures exact: result == pbytes(PReqByCtx(requestContextID, batchCounter))

//@ func GetActiveRequestKey
//@ props C18 C16
//@ theory coins keys bytes
//@ ensures exact: result == kbytes(KActB(serviceName, provider, expirationHeight, requestID))

//@ func GetActiveRequestSubspace
//@ props C18 C17
//@ theory coins keys bytes
//@ ensures exact: result == pbytes(PActBind(serviceName, provider))

//@ func GetActiveRequestKeyByID
//@ props C18 C16
//@ theory coins keys bytes
//@ ensures exact: result == kbytes(KActID(requestID))

//@ func GetActiveRequestSubspaceByReqCtx
//@ props C18 C16
//@ theory coins keys bytes
//@ ensures exact: result == pbytes(PActByCtx(requestContextID, batchCounter))

//@ func GetRequestVolumeKey
//@ props C18 C07
//@ theory coins keys bytes
//@ ensures exact: result == kbytes(KVol(consumer, serviceName, provider))

//@ func GetResponseKey
//@ props C18
//@ theory coins keys bytes
//@ ensures exact: result == kbytes(KResp(requestID))

//@ func GetResponseSubspaceByReqCtx
//@ props C18 C16
//@ theory coins keys bytes
//@ ensures exact: result == pbytes(PRespByCtx(requestContextID, batchCounter))

//@ func GetEarnedFeesKey
//@ props C18 C13
//@ theory coins keys bytes
//@ ensures exact: result == kbytes(KEarned(provider, denom))

//@ func GetEarnedFeesSubspace
//@ props C18 C13
//@ theory coins keys bytes
//@ ensures exact: result == pbytes(PEarned(provider))

//@ func GetOwnerEarnedFeesKey
//@ props C18 C13
//@ theory coins keys bytes
//@ ensures exact: result == kbytes(KOwnerEarned(owner))

//@ func GetOwnerEarnedFeesSubspace
//@ props C18 C13
//@ theory coins keys bytes
//@ ensures exact: result == pbytes(POwnerEarned(owner))

//@ func getStringsKey
//@ props C18 C15
//@ theory coins keys bytes
//@ loop 0 invariant seen: 0 <= iter && iter <= len(ss)
//@ loop 0 invariant acc: result == joinZ(ss, iter)
//@ ensures exact: result == strsKey(ss)

//@ func ValidateRequestContextUpdating
//@ props C09 C10 C18
//@ ensures err == NoErr ==> timeout >= 0 && repeatedTotal >= -1 && len(providers) <= 10 &&
//@      (timeout != 0 && repeatedFrequency != 0 ==> repeatedFrequency >= timeout)

//@ func ValidateProvidersCanEmpty
//@ props C18 C09
//@ ensures at_most_ten: err == NoErr ==> len(providers) <= 10

//@ func ValidateProvidersNoEmpty
//@ props C18 C09
//@ ensures between_one_and_ten: err == NoErr ==> 0 < len(providers) && len(providers) <= 10

// pure helpers whose result is not used by any property: nothing is assumed about them except that they touch no module state
//@ func checkDuplicateProviders
//@ trusted

//@ func ValidateServiceName
//@ trusted

//@ func ValidateInput
//@ trusted

//@ func ValidateServiceFeeCap
//@ trusted

// ---------------------------------------------------------------- identifiers (C18); byte-level contracts are in the lemmas of layer K
//@ func GenerateRequestID
//@ props C18
//@ theory coins keys bytes
//@ ensures [C18] exact_layout: result == mkRID(requestContextID, requestContextBatchCounter, requestHeight, batchRequestIndex)

//@ func GenerateRequestContextID
//@ props C18
//@ theory coins keys bytes
//@ ensures [C18] exact_layout: result == mkCtxID(txHash, msgIndex)

//@ func ValidateRequest
//@ props C10 C09 C18
//@ ensures err == NoErr ==> timeout > 0 && len(providers) > 0 && len(providers) <= 10 && (repeated ==> (repeatedFrequency == 0 || repeatedFrequency >= timeout) && (repeatedTotal == -1 || repeatedTotal >= 1))

// ---------------------------------------------------------------- genesis validation (C19)
//@ func ValidateGenesis
//@ props C19
//@ loop 0 invariant seen: 0 <= iter && iter <= len(data.Definitions)
//@ loop 1 invariant seen: 0 <= iter && iter <= len(data.Bindings)
//@ loop 2 invariant [C19] visited_keys_are_addresses: forall k Str :: {range_visited[k]} range_visited[k] ==> bech32Err(k) == NoErr
//@ loop 3 invariant [C19] visited_contexts_are_importable: forall k Str :: {range_visited[k]} range_visited[k] ==> hexErr(k) == NoErr &&
//@      mapGet_Map_Str_RequestContext(data.RequestContexts, k).State == 1 && mapGet_Map_Str_RequestContext(data.RequestContexts, k).BatchState == 1
//@ ensures [C19] withdraw_address_keys_are_bech32_addresses_as_exported: err == NoErr ==> (forall k Str :: {mapHas_Map_Str_Bytes(data.WithdrawAddresses, k)} mapHas_Map_Str_Bytes(data.WithdrawAddresses, k) ==> bech32Err(k) == NoErr)
//@ ensures [C19] contexts_are_paused_with_hex_ids: err == NoErr ==> (forall k Str :: {mapHas_Map_Str_RequestContext(data.RequestContexts, k)} mapHas_Map_Str_RequestContext(data.RequestContexts, k) ==> hexErr(k) == NoErr &&
//@      mapGet_Map_Str_RequestContext(data.RequestContexts, k).State == 1 && mapGet_Map_Str_RequestContext(data.RequestContexts, k).BatchState == 1)

//@ func SplitRequestContextID
//@ props C18
//@ theory coins keys bytes bat
//@ ensures [C18] fixed_length: (err == NoErr) <==> len(contextID) == 40
//@ ensures [C18] decodes_hash_and_index: err == NoErr ==> result0 == cidHash(contextID) && result1 == cidIndex(contextID)

//@ func SplitRequestID
//@ props C18
//@ theory coins keys bytes bat
//@ ensures [C18] fixed_length: (err == NoErr) <==> len(requestID) == 58
//@ ensures [C18] decodes_context_batch_height_index: err == NoErr ==> result0 == ridCtx(requestID) && result1 == ridBatch(requestID) && result2 == ridHeight(requestID) && result3 == ridIndex(requestID)
