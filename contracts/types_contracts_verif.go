//go:build verif
// +build verif

// Contracts (comment-only; no code). Checked by /verif/engine (govc) against the go/ssa of this package.
package types

//@ func GetDiscountByTime
//@ props C07
//@ theory coins keys pricing
//@ loop 0 invariant seen: 0 <= iter && iter <= len(pricing.PromotionsByTime)
//@ loop 0 invariant none_before: forall j Int :: 0 <= j && j < iter ==> !inWindow(pricing.PromotionsByTime[j], time)
//@ ensures result_is_dT: result == discountByTime(pricing, time)
