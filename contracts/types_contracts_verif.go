//go:build verif
// +build verif

// Contracts (comment-only; no code). Checked by /verif/engine (govc) against the go/ssa of this package.
package types

//@ func GetDiscountByTime
//@ vars types.GetDiscountByTime: pricing=github.com/irismod/service/types.Pricing#0 time=time.Time#0 p=github.com/irismod/service/types.PromotionByTime#0
//@ props C07
//@ theory keys pricing
//@ loop 0 invariant seen: 0 <= iter && iter <= len(pricing.PromotionsByTime)
//@ loop 0 invariant none_before: forall j Int :: 0 <= j && j < iter ==> !inWindow(pricing.PromotionsByTime[j], time)
//@ ensures result_is_dT: result == discountByTime(pricing, time)

//@ func GetDiscountByVolume
//@ vars types.GetDiscountByVolume: pricing=github.com/irismod/service/types.Pricing#0 volume=uint64#0 promotionsByVol=[]github.com/irismod/service/types.PromotionByVolume#0 i=int#0 p=github.com/irismod/service/types.PromotionByVolume#0
//@ props C07
//@ theory keys pricing
//@ loop 0 invariant seen: 0 <= iter && iter <= len(pricing.PromotionsByVolume)
//@ loop 0 invariant all_le: forall j Int :: 0 <= j && j < iter ==> volAt(pricing, j) <= volume
//@ loop 0 invariant not_past_end: len(pricing.PromotionsByVolume) == 0 || iter < len(pricing.PromotionsByVolume)
//@ ensures result_is_dV: result == discountByVolume(pricing, volume)

//@ func ValidatePricing
//@ vars types.ValidatePricing: pricing=github.com/irismod/service/types.Pricing#0 i=int#0 p=github.com/irismod/service/types.PromotionByTime#0 i=int#1 p=github.com/irismod/service/types.PromotionByVolume#0
//@ props C07 C15
//@ theory keys pricing
//@ loop 0 invariant seen: 0 <= iter && iter <= len(pricing.PromotionsByTime)
//@ loop 0 invariant ok_so_far: forall j Int :: 0 <= j && j < iter ==> windowOK(pricing, j)
//@ loop 1 invariant seen: 0 <= iter && iter <= len(pricing.PromotionsByVolume)
//@ loop 1 invariant windows: forall j Int :: 0 <= j && j < len(pricing.PromotionsByTime) ==> windowOK(pricing, j)
//@ loop 1 invariant ok_so_far: forall j Int :: 0 <= j && j < iter ==> volumeOK(pricing, j)
//@ ensures nil_iff_valid: (result == NoErr) <==> validPricing(pricing)

// ---------------------------------------------------------------- store keys (layer K): every builder returns exactly kbytes(<Key>) / pbytes(<Prefix>)
//@ func GetServiceDefinitionKey
//@ vars types.GetServiceDefinitionKey: serviceName=string#0
//@ props C18 C15
//@ theory coins keys bytes
//@ ensures exact: result == kbytes(KDef(serviceName))

//@ func GetServiceBindingKey
//@ vars types.GetServiceBindingKey: serviceName=string#0 provider=github.com/cosmos/cosmos-sdk/types.AccAddress#0
//@ props C18 C15
//@ theory coins keys bytes
//@ ensures exact: result == kbytes(KBind(serviceName, provider))

//@ func GetOwnerServiceBindingKey
//@ vars types.GetOwnerServiceBindingKey: owner=github.com/cosmos/cosmos-sdk/types.AccAddress#0 serviceName=string#0 provider=github.com/cosmos/cosmos-sdk/types.AccAddress#1
//@ props C18 C15
//@ theory coins keys bytes
//@ ensures exact: result == kbytes(KOwnerBind(owner, serviceName, provider))

//@ func GetOwnerKey
//@ vars types.GetOwnerKey: provider=github.com/cosmos/cosmos-sdk/types.AccAddress#0
//@ props C18 C15
//@ theory coins keys bytes
//@ ensures exact: result == kbytes(KOwner(provider))

//@ func GetOwnerProviderKey
//@ vars types.GetOwnerProviderKey: owner=github.com/cosmos/cosmos-sdk/types.AccAddress#0 provider=github.com/cosmos/cosmos-sdk/types.AccAddress#1
//@ props C18 C15
//@ theory coins keys bytes
//@ ensures exact: result == kbytes(KOwnerProv(owner, provider))

//@ func GetPricingKey
//@ vars types.GetPricingKey: serviceName=string#0 provider=github.com/cosmos/cosmos-sdk/types.AccAddress#0
//@ props C18 C15
//@ theory coins keys bytes
//@ ensures exact: result == kbytes(KPricing(serviceName, provider))

//@ func GetWithdrawAddrKey
//@ vars types.GetWithdrawAddrKey: provider=github.com/cosmos/cosmos-sdk/types.AccAddress#0
//@ props C18 C13
//@ theory coins keys bytes
//@ ensures exact: result == kbytes(KWAddr(provider))

//@ func GetBindingsSubspace
//@ vars types.GetBindingsSubspace: serviceName=string#0
//@ props C18 C15
//@ theory coins keys bytes
//@ ensures exact: result == pbytes(PBindSvc(serviceName))

//@ func GetOwnerBindingsSubspace
//@ vars types.GetOwnerBindingsSubspace: owner=github.com/cosmos/cosmos-sdk/types.AccAddress#0 serviceName=string#0
//@ props C18 C15
//@ theory coins keys bytes
//@ ensures exact: result == pbytes(POwnerBind(owner, serviceName))

//@ func GetOwnerProvidersSubspace
//@ vars types.GetOwnerProvidersSubspace: owner=github.com/cosmos/cosmos-sdk/types.AccAddress#0
//@ props C18 C13
//@ theory coins keys bytes
//@ ensures exact: result == pbytes(POwnerProv(owner))

//@ func GetRequestContextKey
//@ vars types.GetRequestContextKey: requestContextID=[]byte#0
//@ props C18
//@ theory coins keys bytes
//@ ensures exact: result == kbytes(KCtx(requestContextID))

//@ func GetExpiredRequestBatchKey
//@ vars types.GetExpiredRequestBatchKey: requestContextID=[]byte#0 batchExpirationHeight=int64#0 reqBatchExpiration=[]byte#1
//@ props C18 C11
//@ theory coins keys bytes
//@ ensures exact: result == kbytes(KExpQ(batchExpirationHeight, requestContextID))

//@ func GetNewRequestBatchKey
//@ vars types.GetNewRequestBatchKey: requestContextID=[]byte#0 requestBatchHeight=int64#0 newBatchRequest=[]byte#1
//@ props C18 C11
//@ theory coins keys bytes
//@ ensures exact: result == kbytes(KNewQ(requestBatchHeight, requestContextID))

//@ func GetExpiredRequestBatchSubspace
//@ vars types.GetExpiredRequestBatchSubspace: batchExpirationHeight=int64#0
//@ props C18 C11
//@ theory coins keys bytes
//@ ensures exact: result == pbytes(PExpQ(batchExpirationHeight))

//@ func GetNewRequestBatchSubspace
//@ vars types.GetNewRequestBatchSubspace: requestBatchHeight=int64#0
//@ props C18 C11
//@ theory coins keys bytes
//@ ensures exact: result == pbytes(PNewQ(requestBatchHeight))

//@ func GetExpiredRequestBatchHeightKey
//@ vars types.GetExpiredRequestBatchHeightKey: requestContextID=[]byte#0
//@ props C18 C11
//@ theory coins keys bytes
//@ ensures exact: result == kbytes(KExpH(requestContextID))

//@ func GetNewRequestBatchHeightKey
//@ vars types.GetNewRequestBatchHeightKey: requestContextID=[]byte#0
//@ props C18 C11
//@ theory coins keys bytes
//@ ensures exact: result == kbytes(KNewH(requestContextID))

//@ func GetRequestKey
//@ vars types.GetRequestKey: requestID=[]byte#0
//@ props C18
//@ theory coins keys bytes
//@ ensures exact: result == kbytes(KReq(requestID))

//@ func GetRequestSubspaceByReqCtx
//@ vars types.GetRequestSubspaceByReqCtx: requestContextID=[]byte#0 batchCounter=uint64#0
//@ props C18 C16
//@ theory coins keys bytes
//@ ensures exact: result == pbytes(PReqByCtx(requestContextID, batchCounter))

//@ func GetActiveRequestKey
//@ vars types.GetActiveRequestKey: serviceName=string#0 provider=github.com/cosmos/cosmos-sdk/types.AccAddress#0 expirationHeight=int64#0 requestID=[]byte#0 activeRequest=[]byte#1
//@ props C18 C16
//@ theory coins keys bytes
//@ ensures exact: result == kbytes(KActB(serviceName, provider, expirationHeight, requestID))

//@ func GetActiveRequestSubspace
//@ vars types.GetActiveRequestSubspace: serviceName=string#0 provider=github.com/cosmos/cosmos-sdk/types.AccAddress#0
//@ props C18 C17
//@ theory coins keys bytes
//@ ensures exact: result == pbytes(PActBind(serviceName, provider))

//@ func GetActiveRequestKeyByID
//@ vars types.GetActiveRequestKeyByID: requestID=[]byte#0
//@ props C18 C16
//@ theory coins keys bytes
//@ ensures exact: result == kbytes(KActID(requestID))

//@ func GetActiveRequestSubspaceByReqCtx
//@ vars types.GetActiveRequestSubspaceByReqCtx: requestContextID=[]byte#0 batchCounter=uint64#0
//@ props C18 C16
//@ theory coins keys bytes
//@ ensures exact: result == pbytes(PActByCtx(requestContextID, batchCounter))

//@ func GetRequestVolumeKey
//@ vars types.GetRequestVolumeKey: consumer=github.com/cosmos/cosmos-sdk/types.AccAddress#0 serviceName=string#0 provider=github.com/cosmos/cosmos-sdk/types.AccAddress#1
//@ props C18 C07
//@ theory coins keys bytes
//@ ensures exact: result == kbytes(KVol(consumer, serviceName, provider))

//@ func GetResponseKey
//@ vars types.GetResponseKey: requestID=[]byte#0
//@ props C18
//@ theory coins keys bytes
//@ ensures exact: result == kbytes(KResp(requestID))

//@ func GetResponseSubspaceByReqCtx
//@ vars types.GetResponseSubspaceByReqCtx: requestContextID=[]byte#0 batchCounter=uint64#0
//@ props C18 C16
//@ theory coins keys bytes
//@ ensures exact: result == pbytes(PRespByCtx(requestContextID, batchCounter))

//@ func GetEarnedFeesKey
//@ vars types.GetEarnedFeesKey: provider=github.com/cosmos/cosmos-sdk/types.AccAddress#0 denom=string#0
//@ props C18 C13
//@ theory coins keys bytes
//@ ensures exact: result == kbytes(KEarned(provider, denom))

//@ func GetEarnedFeesSubspace
//@ vars types.GetEarnedFeesSubspace: provider=github.com/cosmos/cosmos-sdk/types.AccAddress#0
//@ props C18 C13
//@ theory coins keys bytes
//@ ensures exact: result == pbytes(PEarned(provider))

//@ func GetOwnerEarnedFeesKey
//@ vars types.GetOwnerEarnedFeesKey: owner=github.com/cosmos/cosmos-sdk/types.AccAddress#0 denom=string#0
//@ props C18 C13
//@ theory coins keys bytes
//@ ensures exact: result == kbytes(KOwnerEarned(owner))

//@ func GetOwnerEarnedFeesSubspace
//@ vars types.GetOwnerEarnedFeesSubspace: owner=github.com/cosmos/cosmos-sdk/types.AccAddress#0
//@ props C18 C13
//@ theory coins keys bytes
//@ ensures exact: result == pbytes(POwnerEarned(owner))

//@ func getStringsKey
//@ vars types.getStringsKey: ss=[]string#0 result=[]byte#0 s=string#0
//@ props C18 C15
//@ theory coins keys bytes
//@ loop 0 invariant seen: 0 <= iter && iter <= len(ss)
//@ loop 0 invariant acc: result == joinZ(ss, iter)
//@ ensures exact: result == strsKey(ss)

//@ func ValidateRequestContextUpdating
//@ vars types.ValidateRequestContextUpdating: providers=[]github.com/cosmos/cosmos-sdk/types.AccAddress#0 serviceFeeCap=github.com/cosmos/cosmos-sdk/types.Coins#0 timeout=int64#0 repeatedFrequency=uint64#0 repeatedTotal=int64#1 err=error#0 err=error#1
//@ props C09 C10 C18
//@ ensures accepted_updates_have_a_nonnegative_timeout_at_most_ten_providers_and_a_sane_cadence: err == NoErr ==> timeout >= 0 && repeatedTotal >= -1 && len(providers) <= 10 &&
//@      (timeout != 0 && repeatedFrequency != 0 ==> repeatedFrequency >= timeout)

//@ func ValidateProvidersCanEmpty
//@ vars types.ValidateProvidersCanEmpty: providers=[]github.com/cosmos/cosmos-sdk/types.AccAddress#0 err=error#0
//@ props C18 C09
//@ ensures at_most_ten: err == NoErr ==> len(providers) <= 10
//@ ensures [C18] no_provider_listed_twice: err == NoErr ==> (forall i Int, j Int :: 0 <= i && i < j && j < len(providers) ==> providers[i] != providers[j])

//@ func ValidateProvidersNoEmpty
//@ vars types.ValidateProvidersNoEmpty: providers=[]github.com/cosmos/cosmos-sdk/types.AccAddress#0 err=error#0
//@ props C18 C09
//@ ensures between_one_and_ten: err == NoErr ==> 0 < len(providers) && len(providers) <= 10
//@ ensures [C18] no_provider_listed_twice: err == NoErr ==> (forall i Int, j Int :: 0 <= i && i < j && j < len(providers) ==> providers[i] != providers[j])

// pure helpers whose result is not used by any property: nothing is assumed about them except that they touch no module state
//@ func checkDuplicateProviders
//@ vars types.checkDuplicateProviders: providers=[]github.com/cosmos/cosmos-sdk/types.AccAddress#0 providerArr=[]string#0 i=int#0 provider=github.com/cosmos/cosmos-sdk/types.AccAddress#0
//@ props C20 C18
//@ theory coins keys
//@ loop 0 invariant seen: 0 <= iter && iter <= len(providers) && len(providerArr) == len(providers)
//@ loop 0 invariant texts_so_far: forall j Int :: 0 <= j && j < iter ==> providerArr[j] == bech32(providers[j])
//@ ensures [C20,C18] rejects_exactly_a_repeated_provider: (result == NoErr) <==> (forall i Int, j Int :: 0 <= i && i < j && j < len(providers) ==> providers[i] != providers[j])

//@ func ValidateServiceName
//@ vars types.ValidateServiceName: name=string#0
//@ props C20 C15
//@ theory coins keys

//@ func ValidateInput
//@ vars types.ValidateInput: input=string#0
//@ props C20
//@ theory coins keys
//@ ensures [C20] accepts_exactly_nonempty_json: (err == NoErr) <==> (strlen(input) > 0 && jsonValid(s2b(input)))

//@ func ValidateServiceFeeCap
//@ vars types.ValidateServiceFeeCap: serviceFeeCap=github.com/cosmos/cosmos-sdk/types.Coins#0
//@ props C20 C06
//@ theory coins keys
//@ ensures [C20,C06] accepts_exactly_valid_coins: (err == NoErr) <==> coinsValid(serviceFeeCap)

// ---------------------------------------------------------------- identifiers (C18); byte-level contracts are in the lemmas of layer K
//@ func GenerateRequestID
//@ vars types.GenerateRequestID: requestContextID=github.com/tendermint/tendermint/libs/bytes.HexBytes#0 requestContextBatchCounter=uint64#0 requestHeight=int64#0 batchRequestIndex=int16#0 contextID=[]byte#0 bz=[]byte#1
//@ props C18
//@ theory coins keys bytes
//@ ensures [C18] exact_layout: result == mkRID(requestContextID, requestContextBatchCounter, requestHeight, batchRequestIndex)

//@ func GenerateRequestContextID
//@ vars types.GenerateRequestContextID: txHash=[]byte#0 msgIndex=int64#0 bz=[]byte#1
//@ props C18
//@ theory coins keys bytes
//@ ensures [C18] exact_layout: result == mkCtxID(txHash, msgIndex)

//@ func ValidateRequest
//@ vars types.ValidateRequest: serviceName=string#0 serviceFeeCap=github.com/cosmos/cosmos-sdk/types.Coins#0 providers=[]github.com/cosmos/cosmos-sdk/types.AccAddress#0 input=string#1 timeout=int64#0 repeated=bool#0 repeatedFrequency=uint64#0 repeatedTotal=int64#1 err=error#0 err=error#1 err=error#2 err=error#3
//@ props C10 C09 C18
//@ ensures accepted_requests_have_a_positive_timeout_one_to_ten_providers_and_a_sane_cadence: err == NoErr ==> timeout > 0 && len(providers) > 0 && len(providers) <= 10 && (repeated ==> (repeatedFrequency == 0 || repeatedFrequency >= timeout) && (repeatedTotal == -1 || repeatedTotal >= 1))

// ---------------------------------------------------------------- genesis validation (C19)
//@ func ValidateGenesis
//@ vars types.ValidateGenesis: data=github.com/irismod/service/types.GenesisState#0 err=error#0 definition=github.com/irismod/service/types.ServiceDefinition#0 err=error#1 binding=github.com/irismod/service/types.ServiceBinding#0 err=error#2 providerAddressStr=string#0 err=error#3 requestContextID=string#1 requestContext=*github.com/irismod/service/types.RequestContext#0 err=error#4 err=error#5
//@ props C19
//@ loop 0 invariant seen: 0 <= iter && iter <= len(data.Definitions)
//@ loop 1 invariant seen: 0 <= iter && iter <= len(data.Bindings)
//@ loop 1 invariant [C19] bindings_so_far_satisfy_the_record_rules: forall j Int :: {data.Bindings[j]} 0 <= j && j < iter ==> bindRecOK(data.Bindings[j])
//@ loop 2 invariant [C19] visited_keys_are_addresses: forall k Str :: {range_visited[k]} range_visited[k] ==> bech32Err(k) == NoErr
//@ loop 3 invariant [C19] visited_contexts_are_importable: forall k Str :: {range_visited[k]} range_visited[k] ==> hexErr(k) == NoErr &&
//@      mapGet_Map_Str_RequestContext(data.RequestContexts, k).State == 1 && mapGet_Map_Str_RequestContext(data.RequestContexts, k).BatchState == 1
//@ ensures [C19] withdraw_address_keys_are_bech32_addresses_as_exported: err == NoErr ==> (forall k Str :: {mapHas_Map_Str_Bytes(data.WithdrawAddresses, k)} mapHas_Map_Str_Bytes(data.WithdrawAddresses, k) ==> bech32Err(k) == NoErr)
//@ ensures [C19,C15] accepted_bindings_satisfy_the_record_rules: err == NoErr ==> (forall j Int :: {data.Bindings[j]} 0 <= j && j < len(data.Bindings) ==> bindRecOK(data.Bindings[j]))
//@ ensures [C19] contexts_are_paused_with_hex_ids: err == NoErr ==> (forall k Str :: {mapHas_Map_Str_RequestContext(data.RequestContexts, k)} mapHas_Map_Str_RequestContext(data.RequestContexts, k) ==> hexErr(k) == NoErr &&
//@      mapGet_Map_Str_RequestContext(data.RequestContexts, k).State == 1 && mapGet_Map_Str_RequestContext(data.RequestContexts, k).BatchState == 1)

//@ func SplitRequestContextID
//@ vars types.SplitRequestContextID: contextID=github.com/tendermint/tendermint/libs/bytes.HexBytes#0 txHash=github.com/tendermint/tendermint/libs/bytes.HexBytes#1 msgIndex=int64#0
//@ props C18
//@ theory coins keys bytes bat
//@ ensures [C18] fixed_length: (err == NoErr) <==> len(contextID) == 40
//@ ensures [C18] decodes_hash_and_index: err == NoErr ==> result0 == cidHash(contextID) && result1 == cidIndex(contextID)

//@ func SplitRequestID
//@ vars types.SplitRequestID: requestID=github.com/tendermint/tendermint/libs/bytes.HexBytes#0 contextID=github.com/tendermint/tendermint/libs/bytes.HexBytes#1 batchCounter=uint64#0 requestHeight=int64#0 batchRequestIndex=int16#0
//@ props C18
//@ theory coins keys bytes bat
//@ ensures [C18] fixed_length: (err == NoErr) <==> len(requestID) == 58
//@ ensures [C18] decodes_context_batch_height_index: err == NoErr ==> result0 == ridCtx(requestID) && result1 == ridBatch(requestID) && result2 == ridHeight(requestID) && result3 == ridIndex(requestID)

// ---------------------------------------------------------------- stateless validation (A2): what ValidateBasic establishes for the handlers
// The SDK runs ValidateBasic before routing a message; the facts the handler contracts require under the label a2_validated are proved here
// from the bodies of the ValidateBasic methods (helpers that contribute nothing to those facts are assumed pure, with no postcondition).
//@ func ValidateServiceDeposit
//@ vars types.ValidateServiceDeposit: deposit=github.com/cosmos/cosmos-sdk/types.Coins#0
//@ props C20 C03 C19
//@ ensures no_negative_amount: err == NoErr ==> (forall d Str :: {amt(deposit, d)} amt(deposit, d) >= 0)
//@ ensures [C19,C15] accepts_exactly_the_valid_deposits_without_negative_amounts: (err == NoErr) <==> (coinsValid(deposit) && !isAnyNegative(deposit))

//@ func ValidateWithdrawAddress
//@ vars types.ValidateWithdrawAddress: withdrawAddress=github.com/cosmos/cosmos-sdk/types.AccAddress#0
//@ props C20 C13
//@ ensures present: err == NoErr ==> len(withdrawAddress) > 0

//@ func (MsgBindService).ValidateBasic
//@ vars (types.MsgBindService).ValidateBasic: msg=github.com/irismod/service/types.MsgBindService#0 err=error#0 err=error#1 err=error#2 err=error#3 err=error#4 err=error#5
//@ props C20 C03
//@ ensures [C20,C03] deposit_has_no_negative_amount: err == NoErr ==> (forall d Str :: {amt(msg.Deposit, d)} amt(msg.Deposit, d) >= 0)
//@ ensures [C20,C15] deposit_is_a_valid_coin_list: err == NoErr ==> coinsValid(msg.Deposit)
//@ ensures [C20,C15] qos_positive: err == NoErr ==> msg.QoS > 0
//@ ensures [C20,C15] provider_and_owner_present: err == NoErr ==> len(msg.Provider) > 0 && len(msg.Owner) > 0

//@ func (MsgUpdateServiceBinding).ValidateBasic
//@ vars (types.MsgUpdateServiceBinding).ValidateBasic: msg=github.com/irismod/service/types.MsgUpdateServiceBinding#0 err=error#0 err=error#1 err=error#2 err=error#3 err=error#4
//@ props C20 C03
//@ ensures [C20,C03] deposit_has_no_negative_amount: err == NoErr ==> (forall d Str :: {amt(msg.Deposit, d)} amt(msg.Deposit, d) >= 0)
//@ ensures [C20,C15] deposit_is_empty_or_a_valid_coin_list: err == NoErr ==> len(msg.Deposit) == 0 || coinsValid(msg.Deposit)

//@ func (MsgEnableServiceBinding).ValidateBasic
//@ vars (types.MsgEnableServiceBinding).ValidateBasic: msg=github.com/irismod/service/types.MsgEnableServiceBinding#0 err=error#0 err=error#1 err=error#2 err=error#3
//@ props C20 C03
//@ ensures [C20,C03] deposit_has_no_negative_amount: err == NoErr ==> (forall d Str :: {amt(msg.Deposit, d)} amt(msg.Deposit, d) >= 0)
//@ ensures [C20,C15] deposit_is_empty_or_a_valid_coin_list: err == NoErr ==> len(msg.Deposit) == 0 || coinsValid(msg.Deposit)

//@ func (MsgSetWithdrawAddress).ValidateBasic
//@ vars (types.MsgSetWithdrawAddress).ValidateBasic: msg=github.com/irismod/service/types.MsgSetWithdrawAddress#0 err=error#0
//@ props C20 C13
//@ ensures [C20,C13] withdrawal_address_present: err == NoErr ==> len(msg.WithdrawAddress) > 0

//@ func (MsgUpdateRequestContext).ValidateBasic
//@ vars (types.MsgUpdateRequestContext).ValidateBasic: msg=github.com/irismod/service/types.MsgUpdateRequestContext#0 err=error#0 err=error#1
//@ props C20 C09 C18
//@ ensures [C20,C09,C18] timeout_not_negative_at_most_ten_providers: err == NoErr ==> msg.Timeout >= 0 && len(msg.Providers) <= 10

//@ func (MsgCallService).ValidateBasic
//@ vars (types.MsgCallService).ValidateBasic: msg=github.com/irismod/service/types.MsgCallService#0 err=error#0
//@ props C20 C10 C18
//@ ensures [C20,C10,C18] request_parameters_validated: err == NoErr ==> msg.Timeout > 0 && 0 < len(msg.Providers) && len(msg.Providers) <= 10 &&
//@      (msg.Repeated ==> (msg.RepeatedFrequency == 0 || msg.RepeatedFrequency >= msg.Timeout) && (msg.RepeatedTotal == -1 || msg.RepeatedTotal >= 1))

//@ func ValidateProvider
//@ vars types.ValidateProvider: provider=github.com/cosmos/cosmos-sdk/types.AccAddress#0
//@ props C20 C15 C16
//@ ensures present: err == NoErr ==> len(provider) > 0

//@ func ValidateOwner
//@ vars types.ValidateOwner: owner=github.com/cosmos/cosmos-sdk/types.AccAddress#0
//@ props C20 C05
//@ ensures [C20,C05] accepts_exactly_a_present_owner: (err == NoErr) <==> len(owner) > 0

//@ func ValidateConsumer
//@ vars types.ValidateConsumer: consumer=github.com/cosmos/cosmos-sdk/types.AccAddress#0
//@ props C20 C05
//@ ensures [C20,C05] accepts_exactly_a_present_consumer: (err == NoErr) <==> len(consumer) > 0

//@ func ValidateQoS
//@ vars types.ValidateQoS: qos=uint64#0
//@ props C20
//@ ensures [C20] accepts_exactly_positive: (err == NoErr) <==> qos > 0

//@ func ValidateOptions
//@ vars types.ValidateOptions: options=string#0
//@ props C20
//@ theory coins keys
//@ ensures [C20] accepts_exactly_json: (err == NoErr) <==> jsonValid(s2b(options))

//@ func ValidateBindingPricing
//@ vars types.ValidateBindingPricing: pricing=string#0 err=error#0
//@ trusted

//@ func ValidateContextID
//@ vars types.ValidateContextID: contextID=[]byte#0
//@ props C20 C18
//@ ensures [C20,C18] accepts_exactly_forty_bytes: (err == NoErr) <==> len(contextID) == 40

//@ func ValidateRequestID
//@ vars types.ValidateRequestID: reqID=[]byte#0
//@ props C20 C18
//@ ensures [C20,C18] accepts_exactly_fifty_eight_bytes: (err == NoErr) <==> len(reqID) == 58

//@ func ValidateAuthor
//@ vars types.ValidateAuthor: author=github.com/cosmos/cosmos-sdk/types.AccAddress#0
//@ props C20 C05
//@ ensures [C20,C05] accepts_exactly_a_present_author: (err == NoErr) <==> len(author) > 0

//@ func ValidateServiceDescription
//@ vars types.ValidateServiceDescription: svcDescription=string#0
//@ props C20

//@ func ValidateAuthorDescription
//@ vars types.ValidateAuthorDescription: authorDescription=string#0
//@ props C20

//@ func (MsgDisableServiceBinding).ValidateBasic
//@ vars (types.MsgDisableServiceBinding).ValidateBasic: msg=github.com/irismod/service/types.MsgDisableServiceBinding#0 err=error#0 err=error#1
//@ props C20 C05
//@ ensures [C20,C05] provider_and_owner_present: err == NoErr ==> len(msg.Provider) > 0 && len(msg.Owner) > 0

//@ func (MsgRefundServiceDeposit).ValidateBasic
//@ vars (types.MsgRefundServiceDeposit).ValidateBasic: msg=github.com/irismod/service/types.MsgRefundServiceDeposit#0 err=error#0 err=error#1
//@ props C20 C05
//@ ensures [C20,C05] provider_and_owner_present: err == NoErr ==> len(msg.Provider) > 0 && len(msg.Owner) > 0

//@ func (MsgPauseRequestContext).ValidateBasic
//@ vars (types.MsgPauseRequestContext).ValidateBasic: msg=github.com/irismod/service/types.MsgPauseRequestContext#0 err=error#0
//@ props C20 C05 C18
//@ ensures [C20,C05,C18] consumer_present_and_id_forty_bytes: (err == NoErr) <==> (len(msg.Consumer) > 0 && len(msg.RequestContextId) == 40)

//@ func (MsgStartRequestContext).ValidateBasic
//@ vars (types.MsgStartRequestContext).ValidateBasic: msg=github.com/irismod/service/types.MsgStartRequestContext#0 err=error#0
//@ props C20 C05 C18
//@ ensures [C20,C05,C18] consumer_present_and_id_forty_bytes: (err == NoErr) <==> (len(msg.Consumer) > 0 && len(msg.RequestContextId) == 40)

//@ func (MsgKillRequestContext).ValidateBasic
//@ vars (types.MsgKillRequestContext).ValidateBasic: msg=github.com/irismod/service/types.MsgKillRequestContext#0 err=error#0
//@ props C20 C05 C18
//@ ensures [C20,C05,C18] consumer_present_and_id_forty_bytes: (err == NoErr) <==> (len(msg.Consumer) > 0 && len(msg.RequestContextId) == 40)

//@ func (MsgWithdrawEarnedFees).ValidateBasic
//@ vars (types.MsgWithdrawEarnedFees).ValidateBasic: msg=github.com/irismod/service/types.MsgWithdrawEarnedFees#0
//@ props C20 C05
//@ ensures [C20,C05] owner_present: (err == NoErr) <==> len(msg.Owner) > 0

//@ func ValidateOutput
//@ vars types.ValidateOutput: code=uint16#0 output=string#0
//@ props C20 C12
//@ theory coins keys
//@ ensures [C20,C12] output_present_exactly_with_code_200_and_json: (err == NoErr) <==> ((code == 200 <==> strlen(output) > 0) && (strlen(output) > 0 ==> jsonValid(s2b(output))))

//@ func HasDuplicate
//@ vars types.HasDuplicate: arr=[]string#0 elementMap=map[string]bool#0 elem=string#0 ok=bool#0
//@ props C20 C18
//@ theory coins keys
//@ loop 0 invariant seen: 0 <= iter && iter <= len(arr)
//@ loop 0 invariant map_holds_the_elements_seen: forall s Str :: {mapHas_Map_Str_Bool(elementMap, s)} mapHas_Map_Str_Bool(elementMap, s) <==> (exists j Int :: 0 <= j && j < iter && arr[j] == s)
//@ loop 0 invariant distinct_so_far: forall i Int, j Int :: 0 <= i && i < j && j < iter ==> arr[i] != arr[j]
//@ ensures [C20,C18] true_exactly_when_two_positions_hold_the_same_element: result <==> (exists i Int, j Int :: 0 <= i && i < j && j < len(arr) && arr[i] == arr[j])

//@ func ValidateTags
//@ vars types.ValidateTags: tags=[]string#0 i=int#0 tag=string#0
//@ props C20
//@ theory coins keys
//@ loop 0 invariant seen: 0 <= iter && iter <= len(tags)

//@ func (MsgDefineService).ValidateBasic
//@ vars (types.MsgDefineService).ValidateBasic: msg=github.com/irismod/service/types.MsgDefineService#0 err=error#0 err=error#1 err=error#2 err=error#3 err=error#4 err=error#5
//@ props C20 C05
//@ ensures [C20,C05] author_present: err == NoErr ==> len(msg.Author) > 0

//@ func (MsgRespondService).ValidateBasic
//@ vars (types.MsgRespondService).ValidateBasic: msg=github.com/irismod/service/types.MsgRespondService#0 err=error#0 err=error#1 err=error#2 result=github.com/irismod/service/types.Result#0 err=error#3
//@ props C20 C05 C18
//@ ensures [C20,C05,C18] provider_present_and_request_id_58_bytes: err == NoErr ==> len(msg.Provider) > 0 && len(msg.RequestId) == 58

// ---------------------------------------------------------------- signers and routing (C05): the account whose signature the ante handler checks is the one the handler treats as the actor
//@ func (MsgDefineService).GetSigners
//@ vars (types.MsgDefineService).GetSigners: msg=github.com/irismod/service/types.MsgDefineService#0
//@ props C05
//@ ensures [C05] the_only_signer_is_the_author_the_handler_acts_for: len(result) == 1 && result[0] == msg.Author

//@ func (MsgDefineService).Route
//@ vars (types.MsgDefineService).Route: msg=github.com/irismod/service/types.MsgDefineService#0
//@ props C05
//@ ensures [C05] routed_to_this_module: result == "service"

//@ func (MsgBindService).GetSigners
//@ vars (types.MsgBindService).GetSigners: msg=github.com/irismod/service/types.MsgBindService#0
//@ props C05
//@ ensures [C05] the_only_signer_is_the_owner_the_handler_acts_for: len(result) == 1 && result[0] == msg.Owner

//@ func (MsgBindService).Route
//@ vars (types.MsgBindService).Route: msg=github.com/irismod/service/types.MsgBindService#0
//@ props C05
//@ ensures [C05] routed_to_this_module: result == "service"

//@ func (MsgUpdateServiceBinding).GetSigners
//@ vars (types.MsgUpdateServiceBinding).GetSigners: msg=github.com/irismod/service/types.MsgUpdateServiceBinding#0
//@ props C05
//@ ensures [C05] the_only_signer_is_the_owner_the_handler_acts_for: len(result) == 1 && result[0] == msg.Owner

//@ func (MsgUpdateServiceBinding).Route
//@ vars (types.MsgUpdateServiceBinding).Route: msg=github.com/irismod/service/types.MsgUpdateServiceBinding#0
//@ props C05
//@ ensures [C05] routed_to_this_module: result == "service"

//@ func (MsgSetWithdrawAddress).GetSigners
//@ vars (types.MsgSetWithdrawAddress).GetSigners: msg=github.com/irismod/service/types.MsgSetWithdrawAddress#0
//@ props C05
//@ ensures [C05] the_only_signer_is_the_owner_the_handler_acts_for: len(result) == 1 && result[0] == msg.Owner

//@ func (MsgSetWithdrawAddress).Route
//@ vars (types.MsgSetWithdrawAddress).Route: msg=github.com/irismod/service/types.MsgSetWithdrawAddress#0
//@ props C05
//@ ensures [C05] routed_to_this_module: result == "service"

//@ func (MsgDisableServiceBinding).GetSigners
//@ vars (types.MsgDisableServiceBinding).GetSigners: msg=github.com/irismod/service/types.MsgDisableServiceBinding#0
//@ props C05
//@ ensures [C05] the_only_signer_is_the_owner_the_handler_acts_for: len(result) == 1 && result[0] == msg.Owner

//@ func (MsgDisableServiceBinding).Route
//@ vars (types.MsgDisableServiceBinding).Route: msg=github.com/irismod/service/types.MsgDisableServiceBinding#0
//@ props C05
//@ ensures [C05] routed_to_this_module: result == "service"

//@ func (MsgEnableServiceBinding).GetSigners
//@ vars (types.MsgEnableServiceBinding).GetSigners: msg=github.com/irismod/service/types.MsgEnableServiceBinding#0
//@ props C05
//@ ensures [C05] the_only_signer_is_the_owner_the_handler_acts_for: len(result) == 1 && result[0] == msg.Owner

//@ func (MsgEnableServiceBinding).Route
//@ vars (types.MsgEnableServiceBinding).Route: msg=github.com/irismod/service/types.MsgEnableServiceBinding#0
//@ props C05
//@ ensures [C05] routed_to_this_module: result == "service"

//@ func (MsgRefundServiceDeposit).GetSigners
//@ vars (types.MsgRefundServiceDeposit).GetSigners: msg=github.com/irismod/service/types.MsgRefundServiceDeposit#0
//@ props C05
//@ ensures [C05] the_only_signer_is_the_owner_the_handler_acts_for: len(result) == 1 && result[0] == msg.Owner

//@ func (MsgRefundServiceDeposit).Route
//@ vars (types.MsgRefundServiceDeposit).Route: msg=github.com/irismod/service/types.MsgRefundServiceDeposit#0
//@ props C05
//@ ensures [C05] routed_to_this_module: result == "service"

//@ func (MsgCallService).GetSigners
//@ vars (types.MsgCallService).GetSigners: msg=github.com/irismod/service/types.MsgCallService#0
//@ props C05
//@ ensures [C05] the_only_signer_is_the_consumer_the_handler_acts_for: len(result) == 1 && result[0] == msg.Consumer

//@ func (MsgCallService).Route
//@ vars (types.MsgCallService).Route: msg=github.com/irismod/service/types.MsgCallService#0
//@ props C05
//@ ensures [C05] routed_to_this_module: result == "service"

//@ func (MsgRespondService).GetSigners
//@ vars (types.MsgRespondService).GetSigners: msg=github.com/irismod/service/types.MsgRespondService#0
//@ props C05
//@ ensures [C05] the_only_signer_is_the_provider_the_handler_acts_for: len(result) == 1 && result[0] == msg.Provider

//@ func (MsgRespondService).Route
//@ vars (types.MsgRespondService).Route: msg=github.com/irismod/service/types.MsgRespondService#0
//@ props C05
//@ ensures [C05] routed_to_this_module: result == "service"

//@ func (MsgPauseRequestContext).GetSigners
//@ vars (types.MsgPauseRequestContext).GetSigners: msg=github.com/irismod/service/types.MsgPauseRequestContext#0
//@ props C05
//@ ensures [C05] the_only_signer_is_the_consumer_the_handler_acts_for: len(result) == 1 && result[0] == msg.Consumer

//@ func (MsgPauseRequestContext).Route
//@ vars (types.MsgPauseRequestContext).Route: msg=github.com/irismod/service/types.MsgPauseRequestContext#0
//@ props C05
//@ ensures [C05] routed_to_this_module: result == "service"

//@ func (MsgStartRequestContext).GetSigners
//@ vars (types.MsgStartRequestContext).GetSigners: msg=github.com/irismod/service/types.MsgStartRequestContext#0
//@ props C05
//@ ensures [C05] the_only_signer_is_the_consumer_the_handler_acts_for: len(result) == 1 && result[0] == msg.Consumer

//@ func (MsgStartRequestContext).Route
//@ vars (types.MsgStartRequestContext).Route: msg=github.com/irismod/service/types.MsgStartRequestContext#0
//@ props C05
//@ ensures [C05] routed_to_this_module: result == "service"

//@ func (MsgKillRequestContext).GetSigners
//@ vars (types.MsgKillRequestContext).GetSigners: msg=github.com/irismod/service/types.MsgKillRequestContext#0
//@ props C05
//@ ensures [C05] the_only_signer_is_the_consumer_the_handler_acts_for: len(result) == 1 && result[0] == msg.Consumer

//@ func (MsgKillRequestContext).Route
//@ vars (types.MsgKillRequestContext).Route: msg=github.com/irismod/service/types.MsgKillRequestContext#0
//@ props C05
//@ ensures [C05] routed_to_this_module: result == "service"

//@ func (MsgUpdateRequestContext).GetSigners
//@ vars (types.MsgUpdateRequestContext).GetSigners: msg=github.com/irismod/service/types.MsgUpdateRequestContext#0
//@ props C05
//@ ensures [C05] the_only_signer_is_the_consumer_the_handler_acts_for: len(result) == 1 && result[0] == msg.Consumer

//@ func (MsgUpdateRequestContext).Route
//@ vars (types.MsgUpdateRequestContext).Route: msg=github.com/irismod/service/types.MsgUpdateRequestContext#0
//@ props C05
//@ ensures [C05] routed_to_this_module: result == "service"

//@ func (MsgWithdrawEarnedFees).GetSigners
//@ vars (types.MsgWithdrawEarnedFees).GetSigners: msg=github.com/irismod/service/types.MsgWithdrawEarnedFees#0
//@ props C05
//@ ensures [C05] the_only_signer_is_the_owner_the_handler_acts_for: len(result) == 1 && result[0] == msg.Owner

//@ func (MsgWithdrawEarnedFees).Route
//@ vars (types.MsgWithdrawEarnedFees).Route: msg=github.com/irismod/service/types.MsgWithdrawEarnedFees#0
//@ props C05
//@ ensures [C05] routed_to_this_module: result == "service"


// ---------------------------------------------------------------- the legal parameter sets (A6): what Params.Validate accepts
//@ func (Params).Validate
//@ vars (types.Params).Validate: p=github.com/irismod/service/types.Params#0 err=error#0 err=error#1 err=error#2 err=error#3 err=error#4 err=error#5 err=error#6 err=error#7
//@ props C20 C04 C02 C14
//@ theory coins keys
//@ ensures [C20,C04,C02,C14] accepts_only_legal_parameters: result == NoErr ==> p.MaxRequestTimeout > 0 && p.MinDepositMultiple > 0 && coinsValid(p.MinDeposit) &&
//@      0 <= p.SlashFraction && p.SlashFraction <= decOne && 0 <= p.ServiceFeeTax && p.ServiceFeeTax < decOne &&
//@      p.ComplaintRetrospect > 0 && p.ArbitrationTimeLimit > 0 && p.TxSizeLimit > 0

// ---------------------------------------------------------------- the module's own validity rules of stored records (C15, C19)
//@ func (ServiceBinding).Validate
//@ vars (types.ServiceBinding).Validate: binding=github.com/irismod/service/types.ServiceBinding#0 err=error#0 err=error#1 err=error#2 err=error#3 err=error#4 err=error#5
//@ props C15 C19 C20
//@ theory coins keys
//@ ensures [C15,C19] accepted_bindings_have_a_provider_an_owner_a_valid_deposit_and_a_positive_qos: result == NoErr ==>
//@      len(binding.Provider) > 0 && len(binding.Owner) > 0 && coinsValid(binding.Deposit) && !isAnyNegative(binding.Deposit) && binding.QoS > 0 &&
//@      jsonValid(s2b(binding.Options))

//@ func (ServiceDefinition).Validate
//@ vars (types.ServiceDefinition).Validate: svcDef=github.com/irismod/service/types.ServiceDefinition#0 err=error#0 err=error#1 err=error#2 err=error#3 err=error#4
//@ props C15 C19 C20
//@ theory coins keys
//@ ensures [C15,C19] accepted_definitions_have_an_author: result == NoErr ==> len(svcDef.Author) > 0

//@ func (RequestContext).Validate
//@ vars (types.RequestContext).Validate: rc=github.com/irismod/service/types.RequestContext#0 err=error#0 err=error#1 err=error#2 err=error#3
//@ props C19 C20 C18
//@ theory coins keys
//@ ensures [C19,C18] accepted_contexts_have_a_consumer_one_to_ten_distinct_providers_and_a_valid_fee_cap: result == NoErr ==>
//@      len(rc.Consumer) > 0 && 0 < len(rc.Providers) && len(rc.Providers) <= 10 && coinsValid(rc.ServiceFeeCap) &&
//@      (forall i Int, j Int :: 0 <= i && i < j && j < len(rc.Providers) ==> rc.Providers[i] != rc.Providers[j])
