#!/bin/bash
# thorough tier of all 20 checks from the directory this script lives in (works from a `vp run` snapshot); log on stdout
export GOFLAGS=-mod=mod GOPROXY=off GOSUMDB=off GOTOOLCHAIN=local
V=$(cd "$(dirname "$0")/.." && pwd)
(cd $V/engine && go build -o $V/bin/govc .) || exit 3
cd $V
rc=0
for i in 01 02 03 04 05 06 07 08 09 10 11 12 13 14 15 16 17 18 19 20; do
  GOVC_CONTRACTS=mirror $V/bin/govc check -p C$i -tier thorough -verif $V 2>&1 | grep -E "^VIOLATION|^govc" | cut -c1-260
  [ ${PIPESTATUS[0]} -eq 0 ] || rc=1
done
exit $rc
