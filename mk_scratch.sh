#!/bin/bash
# creates an independent scratch git copy of /repo (without the contract files and without history) for a sub-agent
set -e
D=$1
rm -rf $D; mkdir -p $D
rsync -a --exclude .git --exclude 'zz_contracts_verif.go' /repo/ $D/
cd $D && git init -q && git add -A && git -c user.email=a@b -c user.name=scratch commit -qm base && mkdir -p out
echo $D ready
